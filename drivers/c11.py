"""C11 -- per-fold score calibration is order-preserving and anchors 0 and -1.

(M) Calib.tla: the steps of calibrate_scores (labels by the C01 formula, lowest accepted target, decoy median,
    affine map) against order preservation / anchors / error-iff-no-accepted-target for every small vector.
(G) TLC enumerates every (raw score vector, labelling, threshold) for direct calls of the calibration functions;
    dataset-level cases (folds 2..6, thresholds from the safe set, several estimators) go through brew().
(V) CalibTrace.tla (direct calls) and BrewTrace.tla (clauses Calibrated / CalibError on the rows finally scored
    by each fold model, recovered with the recording Model subclass) decide.
"""
from __future__ import annotations

import copy
import tempfile
from pathlib import Path

import numpy as np

from engine.tlc import run_tlc, MachineryError
from drivers.common import pmap
from drivers import brewrun, mk
from drivers.c02 import rows_from_shape, signature as brew_signature, drive as brew_drive

LEVEL = "model_checking"


def call_direct(case):
    import mokapot.dataset as D
    raw = np.array(case["raw"], dtype=float) * case.get("scale", 1.0) + case.get("shift", 0.0)
    if case.get("dtype") == "int64":
        # an estimator whose decision function returns whole numbers of a large magnitude as an INTEGER array (distinct values 1000 apart
        # around 2e9: still distinct in single precision, but arithmetic in single precision is off by up to a tenth of a unit)
        raw = np.array(case["raw"], dtype=np.int64) * 1000 + 2_000_000_000
    tgt = np.array(case["tgt"], dtype=bool)
    thr = case["thr"][0] / case["thr"][1]
    n = len(raw)
    rtype, out = "", []
    try:
        if case["api"] == "function":
            res = D.calibrate_scores(raw, tgt, thr)
        else:
            with tempfile.TemporaryDirectory() as d:
                rows = [{"id": i, "spec": i + 1, "pep": i, "tgt": bool(tgt[i]), "feats": [float(raw[i]), 0.0]} for i in range(n)]
                df = mk.build_table(rows, label_enc=case.get("label_enc", "1/-1"))
                ds = mk.make_dataset(df, Path(d) / "x.pin")
                res = ds.calibrate_scores(raw, thr)
        # undo the driver's own monotone rescaling of the inputs: calibrated values are invariant under it
        span = 8 * (max(case["raw"]) - min(case["raw"]) + 1) + 8
        out = [dict(zip(("num", "den", "ok", "nan"), brewrun.frac(v, span))) for v in np.asarray(res).tolist()]
    except Exception as e:
        rtype = type(e).__name__
    return {"n": n, "raw": list(case["raw"]), "tgt": [bool(x) for x in case["tgt"]], "thr": list(case["thr"]),
            "raised_type": rtype, "out": out}


def brew_cases(ctx, rng):
    cases = []
    nb = 120 if ctx.quick else 1500
    for j in range(nb):
        folds = 2 + j % 5
        n = int(rng.choice([60, 90, 150]))
        spec_of, s = [], 1
        while len(spec_of) < n:
            m = int(rng.integers(1, 3))
            spec_of += [s] * m
            s += 1
        rows = rows_from_shape(spec_of[:n], rng)
        mode = j % 6
        for r in rows:
            if mode == 5:      # poor separation: folds may have no accepted target -> explicit error expected
                r["f"] = [int(rng.integers(0, 40)), int(rng.integers(0, 50))]
            else:
                r["f"] = [int(rng.normal(70, 8)) if (r["tgt"] and rng.random() < 0.7) else int(rng.normal(30, 8)), int(rng.integers(0, 50))]
        thr = [[1, 1], [1, 2], [1, 4], [3701, 10000], [101, 10000]][j % 5]
        extra = {}
        if j % 7 == 3:
            # the model's initial direction is a lower-is-better feature (Model.desc = False); the learned scores are still
            # higher-is-better
            for r in rows:
                r["f"][1] = 100 - r["f"][0]
            extra["direction"] = "f2"
            extra["train_thr"] = [1, 4]          # below 1, so that the ascending orientation wins the start-label count
        if j % 7 == 5:
            extra["est_offset"] = [1000000, -250000][j % 2]      # decision function with a large intercept
        files = [{"rows": rows}]
        if j % 6 == 2:
            # a second, jointly modelled collection (calibration is per collection and fold)
            rows2 = rows_from_shape(spec_of[: max(2 * folds + 2, n // 2)], rng, id0=5000)
            for r in rows2:
                r["f"] = [int(rng.normal(75, 8)) if (r["tgt"] and rng.random() < 0.7) else int(rng.normal(25, 8)), int(rng.integers(0, 50))]
            files.append({"rows": rows2})
        cases.append({"files": files, "folds": folds, "workers": 1 + j % 3, "cap": None, "keyw": 2,
                      "fmt": "pin", "thr": thr, "train_thr": [1, 1], "pred_chunk": int(rng.choice([11, 40, 700000])),
                      "read_chunk": 200000, "seed": j, "est": ["feat", "feat", "anti", "proba"][j % 4], "col": 1,
                      "override": True, **extra})      # the user forces use of the model: the best-feature fallback is C07's business
    return cases


def run(ctx):
    ctx.liveness("Calib", unfair_control=not ctx.quick)      # termination under weak fairness (Calib_live.cfg)
    rng = np.random.default_rng(ctx.seed)
    ctx.phase("model_checking")
    ctx.model_check("Calib", "Calib_quick.cfg" if ctx.quick else "Calib_thorough.cfg",
                    note="all raw vectors n<=%d over 0..3 x labellings x 4 thresholds" % (5 if ctx.quick else 6), timeout=3000)
    ctx.model_check("Calib", "Calib_mut1.cfg", expect_violation="OrderPreserved", note="seeded fault: denominator sign flipped")
    ctx.model_check("Calib", "Calib_mut2.cfg", expect_violation="Anchored", note="seeded fault: highest instead of lowest accepted target")
    r = ctx.model_check("Calib", "Calib_cov.cfg", coverage=True, note="action coverage")
    ctx.require_actions(r, ["Labels", "Anchor"])
    ctx.phase("generation")
    g = run_tlc("Calib", "Calib_gen.cfg" if ctx.quick else "Calib_gen5.cfg", workers=1)
    direct = []
    for k, p in enumerate(x for x in g.prints if x and x[0] == "CASE"):
        c = {"raw": p[2], "tgt": p[3], "thr": p[4], "api": "method" if k % 40 == 7 else "function",
             "scale": [1.0, 0.5, 4.0][k % 3], "shift": [0.0, -2.0, 1000000.0, -300000.0][k % 4]}
        if k % 7 == 3 and c["api"] == "function":
            c["dtype"] = "int64"
        direct.append(c)
    if len(direct) < 1000:
        raise MachineryError("only %d direct calibration cases generated" % len(direct))
    for _ in range(300 if ctx.quick else 5000):      # longer random vectors
        n = int(rng.integers(6, 60))
        direct.append({"raw": [int(v) for v in rng.integers(0, 25, n)], "tgt": [bool(v) for v in rng.random(n) < 0.6],
                       "thr": [[1, 1], [1, 2], [1, 4], [3701, 10000]][int(rng.integers(0, 4))], "api": "function",
                       "scale": 1.0, "shift": 0.0})
    bcases = brew_cases(ctx, rng)
    ctx.phase("driving")
    call_direct(direct[0])
    dtr = pmap(lambda i: call_direct(direct[i]), len(direct))
    for i, t in enumerate(dtr):
        t["tid"] = i + 1
    btr = brew_drive(ctx, bcases)
    ctx.phase("validation")
    dv = ctx.validate("CalibTrace", "Trace.cfg", dtr)
    indom = 0
    for c, t in zip(direct, dtr):
        v = dv[t["tid"]]
        indom += 1 if v.get("info") else 0
        ctx.count(("direct", tuple(c["raw"]), tuple(c["tgt"]), tuple(c["thr"])))
        if not v["accept"]:
            ctx.reject({"case": c, "trace": t}, v["failed"], {"api": "calibrate_scores/" + c["api"], "raw": c["raw"], "tgt": c["tgt"],
                                                            "thr": c["thr"], "raised": t["raised_type"]})
    ctx.cov["direct_calls_in_calibration_domain"] = indom
    bv = ctx.validate("BrewTrace", "Trace.cfg", btr)
    nerr = 0
    for c, t in zip(bcases, btr):
        v = bv[t["tid"]]
        nerr += 1 if t["raised_type"] == "RuntimeError" else 0
        ctx.count(("brew", c["seed"], c["folds"], tuple(c["thr"]), c["est"]))
        if not v["accept"]:
            ctx.reject({"case": c, "trace": t}, v["failed"], brew_signature(c, t))
    ctx.cov["brew_runs_stopped_with_calibration_error"] = nerr
    ctx.cov["folds_in_calibration_domain"] = sum(max(0, int(bv[t["tid"]].get("info") or 0)) for t in btr)
    ctx.sample({"direct_case": direct[777], "trace": dtr[777]})
    ctx.sample({"brew_case": {k: v for k, v in bcases[0].items() if k != "files"}, "scores": btr[0]["scores"][:4],
                "preds": [{"model": p["model"], "ids": p["ids"][:4], "raw": p["raw"][:4]} for p in btr[0]["preds"][:2]]})
    ctx.phase("negative_controls")
    crng = np.random.default_rng(ctx.seed + 5)
    bad = []
    for i in crng.permutation(len(dtr))[:4000]:
        t = dtr[int(i)]
        if not dv[t["tid"]]["accept"] or not dv[t["tid"]].get("info") or not t["out"] or len(bad) >= 150:
            continue
        b = copy.deepcopy(t)
        k = int(crng.integers(0, b["n"]))
        b["out"][k]["num"] += b["out"][k]["den"]          # value shifted by one unit
        b["tid"] = len(bad) + 1
        bad.append(b)
    ctx.negative_controls("CalibTrace", "Trace.cfg", bad, name="one calibrated value shifted")
    bad = []
    for i in crng.permutation(len(btr)):
        t = btr[int(i)]
        if not bv[t["tid"]]["accept"] or t["raised"] or not t["calibrated"] or not t["scores"] or len(bad) >= 60 \
                or int(bv[t["tid"]].get("info") or 0) <= 0:
            continue
        b = copy.deepcopy(t)
        for sc in b["scores"]:
            sc["num"] += sc["den"]
        b["tid"] = len(bad) + 1
        bad.append(b)
        b2 = copy.deepcopy(t)
        b2["raised"], b2["raised_type"] = "RuntimeError: x", "RuntimeError"     # spurious calibration error
        b2["tid"] = len(bad) + 1
        bad.append(b2)
    ctx.negative_controls("BrewTrace", "Trace.cfg", bad, name="all returned scores shifted / spurious calibration error")
    ctx.assume("the recording estimator returns integer raw scores so that anchors and calibrated values are exact rationals")
    ctx.assume("domain per statement: folds with an accepted target above the decoy median (others are skipped by the acceptor)")
    return ctx.finish(
        rule="direct calls: every (raw vector over 0..3, labelling, threshold in {1, 1/2, 1/4, 0.3701}) with n<=%d enumerated by "
             "TLC from Calib.tla under three monotone input rescalings, plus random vectors n<60; dataset level: 60-150 row "
             "datasets through brew() with folds 2..6, five thresholds, estimators feat/anti/proba; distinct = distinct input vector "
             "or (dataset seed, folds, threshold, estimator)" % (4 if ctx.quick else 5), exhaustive=True)


def replay(ctx, case):
    c = case["case"]["case"]
    if "files" in c:
        t = brew_drive(ctx, [c])[0]
        v = ctx.validate("BrewTrace", "Trace.cfg", [t])[1]
        sig = brew_signature(c, t)
    else:
        t = call_direct(c)
        t["tid"] = 1
        v = ctx.validate("CalibTrace", "Trace.cfg", [t])[1]
        sig = {"api": "calibrate_scores/" + c["api"], "raw": c["raw"], "tgt": c["tgt"], "thr": c["thr"], "raised": t["raised_type"]}
    if not v["accept"]:
        ctx.reject({"case": c, "trace": t}, v["failed"], sig)
    ctx.count(1)
    ctx.count(2)
    ctx.sample(t if "files" not in c else {"raised": t["raised"]})
    return ctx.finish(rule="replay of one recorded case")
