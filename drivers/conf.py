"""Running the real assign_confidence / brew_rollup on a generated case and projecting the result files to
ConfTrace traces.  Shared by C03, C05, C07, C09."""
from __future__ import annotations

import argparse
import os
import shutil
import tempfile
from pathlib import Path

import numpy as np

from engine.core import rat
from drivers import mk

LEVEL_FILE = {"pep": "peptides", "mod": "modifiedpeptides", "prec": "precursors", "grp": "peptidegroups"}


def input_rows(coll, extra_levels, with_lv=True):
    """trace rows of one collection: rank is 'goodness' (higher = better), s4 = 4*score handed to the code.
    with_lv=False: the extra level columns are not part of the result files (rollup switched off)."""
    out = []
    for r in coll["rows"]:
        lv = [mk.level_string(lv, r["key"][1 + j]) for j, lv in enumerate(extra_levels)] if with_lv else []
        out.append({"id": r["id"], "spec": r["spec"], "key": list(r["key"][:1 + len(extra_levels)]),
                    "tgt": bool(r["tgt"]), "rank": r["rank"], "s4": int(r["s4"]),
                    "pep": "K.PEP%dK.A" % r["key"][0], "prot": "prot_r%d" % r["id"], "lv": lv})
    return out


def parse_result_file(path, extra_levels, nrows):
    hdr, rows = mk.read_result(path)
    out = []
    for r in rows:
        try:
            rid = int(str(r.get("PSMId", ""))[1:]) if str(r.get("PSMId", "")).startswith("r") else -1
        except ValueError:
            rid = -1
        try:
            sc = float(r.get("score"))
            s4 = int(round(sc * 4)) if abs(sc * 4 - round(sc * 4)) < 1e-9 else -99999
        except (TypeError, ValueError):
            s4 = -99999
        try:
            q = rat(float(r.get("q-value")), max(1, nrows))
        except (TypeError, ValueError):
            q = [0, 1, False]
        out.append({"id": rid, "s4": s4, "q": q, "pep": str(r.get("peptide")), "prot": str(r.get("proteinIds")),
                    "lv": [str(r.get(mk.LEVEL_COLS[lv])) for lv in extra_levels], "nf": r["_nf"]})
    return hdr, out


def run_assign(case, workdir=None, keep=False):
    """case: {colls:[{rows:[{id,spec,key:[pep,extra..],tgt,rank}]}], extra_levels:[..], dedup, rollup, decoys,
              chunk, merge_chunk, fmt, prefixes:[str|None..], workers, desc, label_enc, row_group}
    Returns (traces (one per collection, without tid), info)."""
    import mokapot
    mk.install_stub_pep()
    extra = list(case.get("extra_levels", []))
    desc = case.get("desc", True)
    own = workdir is None
    wd = Path(workdir or tempfile.mkdtemp(prefix="conf_"))
    out = wd / "out"
    out.mkdir(exist_ok=True)
    traces = []
    raised = ""
    try:
        dsets, scores = [], []
        for c, coll in enumerate(case["colls"]):
            rows = []
            for r in coll["rows"]:
                r["s4"] = int(r["rank"] - 8) if desc else int(8 - r["rank"])
                rows.append({"id": r["id"], "spec": r["spec"], "pep": r["key"][0], "tgt": r["tgt"],
                             "lvl": {lv: r["key"][1 + j] for j, lv in enumerate(extra)},
                             "feats": [float(r["rank"]), float(-r["rank"])]})
            key = ("ScanNr", "ret_time", "ExpMass") if case.get("key_rt") else ("ScanNr", "ExpMass")
            df = mk.build_table(rows, label_enc=case.get("label_enc", "1/-1"), extra_levels=extra, key_cols=key,
                                missing_rt=case.get("key_rt") == "missing",
                                int_mass=bool(case.get("int_mass") or case.get("odd_names")))      # (pairs of spectra share the scan number)
            # odd_names: spectrum-key / level columns whose names are not Python identifiers
            rn = {"ExpMass": "Exp Mass", "ret_time": "ret-time"} if case.get("odd_names") else None
            ds = mk.make_dataset(df, wd / ("in%d.%s" % (c, case.get("fmt", "pin"))), extra_levels=extra, key_cols=key,
                                 row_group=case.get("row_group"), rename=rn)
            dsets.append(ds)
            scores.append(np.array([r["s4"] / 4.0 for r in coll["rows"]], dtype=float))
        prefixes = case.get("prefixes") or [None] * len(dsets)
        kw = dict(psms=dsets, max_workers=case.get("workers", 1), scores=scores, dest_dir=out,
                  prefixes=list(prefixes), decoys=case["decoys"], deduplication=case["dedup"],
                  do_rollup=case["rollup"], peps_algorithm=case.get("peps", "stub"))
        if not desc:
            kw["descs"] = [False] * len(dsets)
        if case.get("sqlite"):
            # results go into an existing SQLite database (outside the destination directory) instead of the text files
            import sqlite3
            db = wd / "results.db"
            if db.exists():
                db.unlink()
            con = sqlite3.connect(db)
            con.execute("CREATE TABLE CANDIDATE (CANDIDATE_ID TEXT NOT NULL, PSM_FDR REAL, SVM_SCORE REAL, "
                        "POSTERIOR_ERROR_PROBABILITY REAL, PRIMARY KEY (CANDIDATE_ID));")
            con.execute("CREATE TABLE PEPTIDE_VALIDATION (PEPTIDE_ID TEXT NOT NULL, FDR REAL, PEP REAL, SVM_SCORE REAL);")
            con.executemany("INSERT INTO CANDIDATE (CANDIDATE_ID) VALUES(?);",
                            [("r%d" % r["id"],) for coll in case["colls"] for r in coll["rows"]])
            con.commit()
            con.close()
            kw["sqlite_path"] = db
        try:
            with mk.patched(CONFIDENCE_CHUNK_SIZE=case["chunk"], MERGE_SORT_CHUNK_SIZE=case.get("merge_chunk", 20000)):
                mokapot.assign_confidence(**kw)
        except BaseException as e:   # SystemExit from qvality included
            if isinstance(e, KeyboardInterrupt):
                raise
            raised = "%s: %s" % (type(e).__name__, str(e)[:200])
        listing = sorted(os.listdir(out))
        levels = ["psms"] + (["peptides"] + [LEVEL_FILE[lv] for lv in extra] if case["rollup"] else [])
        id_owner = {r["id"]: c for c, coll in enumerate(case["colls"]) for r in coll["rows"]}
        shared_files = len(case["colls"]) > 1 and len({p or "" for p in prefixes}) < len(prefixes)
        for c, coll in enumerate(case["colls"]):
            pfx = (prefixes[c] + ".") if prefixes[c] else ""
            files, missing = [], []
            for lvl in sorted(set(levels) | {f.split(".")[-1] for f in listing if ("targets." in f or "decoys." in f)}):
                for td, name in (("t", "targets"), ("d", "decoys")):
                    fn = "%s%s.%s" % (pfx, name, lvl)
                    if fn not in listing:
                        if lvl in levels and (td == "t" or case["decoys"]):
                            missing.append(fn)
                        continue
                    _, rws = parse_result_file(out / fn, extra if case["rollup"] else [], len(coll["rows"]))
                    if shared_files:     # appended results of several un-prefixed collections: split by owner
                        rws = [x for x in rws if id_owner.get(x["id"], 0) == c]
                    files.append({"level": lvl, "td": td, "rows": rws})
            traces.append({"mode": "assign", "dedup": case["dedup"], "rollup": case["rollup"],
                           "decoys": case["decoys"], "nlev": 1 + len(extra),
                           "levels": ["peptides"] + [LEVEL_FILE[lv] for lv in extra],
                           "rows": input_rows(coll, extra, case["rollup"]), "files": files, "raised": raised, "missing": missing})
        if case.get("sqlite") and traces:
            import sqlite3
            rows = []
            try:
                con = sqlite3.connect(wd / "results.db")
                for tbl, q in (("CANDIDATE", "SELECT CANDIDATE_ID, PSM_FDR, SVM_SCORE FROM CANDIDATE WHERE PSM_FDR IS NOT NULL"),
                               ("PEPTIDE_VALIDATION", "SELECT PEPTIDE_ID, FDR, SVM_SCORE FROM PEPTIDE_VALIDATION")):
                    for a, b, c in con.execute(q).fetchall():
                        rows.append([tbl, str(a), rat(float(b), max(1, len(case["colls"][0]["rows"]))), int(round(float(c) * 4))])
                con.close()
            except Exception as e:
                rows.append(["error", "%s: %s" % (type(e).__name__, e), [0, 1, False], 0])
            traces[0]["sqlite_rows"] = rows
        info = {"listing": listing, "out": str(out)}
        return traces, info
    finally:
        if own and not keep:
            shutil.rmtree(wd, ignore_errors=True)


def run_rollup_tool(case, workdir=None):
    """assign_confidence on several prefixed collections (decoys on), then brew_rollup on the PSM result
    files.  Returns one trace: rows = every row of the PSM result files, files = the rollup outputs."""
    import sys
    import mokapot  # noqa
    BR = sys.modules.get("mokapot.brew_rollup")
    if BR is None:
        import importlib
        BR = importlib.import_module("mokapot.brew_rollup")
    mk.install_stub_pep()
    extra = list(case.get("extra_levels", []))
    wd = Path(workdir or tempfile.mkdtemp(prefix="roll_"))
    try:
        c2 = dict(case)
        c2.update(decoys=True, rollup=True, dedup=case.get("dedup", True))
        tr, info = run_assign(c2, workdir=wd, keep=True)
        src = Path(info["out"])
        dest = wd / "rolled"
        dest.mkdir()
        raised = ""
        cfg = argparse.Namespace(level="psm", src_dir=src, dest_dir=dest, file_root="rollup",
                                 peps_algorithm=case.get("peps", "stub"), qvalue_algorithm="tdc", seed=1,
                                 verbosity=0, suppress_warnings=True)
        try:
            if case.get("via_main"):
                BR.main(["--level", "psm", "-s", str(src), "-d", str(dest), "-v", "0",
                         "--peps_algorithm", case.get("peps", "qvality")])
            else:
                BR.do_rollup(cfg)
        except BaseException as e:
            if isinstance(e, KeyboardInterrupt):
                raise
            raised = "%s: %s" % (type(e).__name__, str(e)[:200])
        # the rollup's input table = all rows of the PSM result files (they passed the PSM-level competition)
        kept = {}
        for t in tr:
            for f in t["files"]:
                if f["level"] == "psms":
                    for x in f["rows"]:
                        kept[x["id"]] = True
        allrows = [r for t in tr for r in t["rows"] if r["id"] in kept]
        listing = sorted(os.listdir(dest))
        levels = ["peptides"] + [LEVEL_FILE[lv] for lv in extra]
        names = {"peptides": "peptides", "modifiedpeptides": "modified_peptides", "precursors": "precursors",
                 "peptidegroups": "peptide_groups"}
        files, missing = [], []
        for lvl in levels:
            for td, name in (("t", "targets"), ("d", "decoys")):
                fn = "rollup.%s.%s" % (name, names[lvl])
                if fn not in listing:
                    missing.append(fn)
                    continue
                hdr, rows = mk.read_result(dest / fn)
                rws = []
                for r in rows:
                    pid = str(r.get("psm_id", ""))
                    rid = int(pid[1:]) if pid.startswith("r") and pid[1:].isdigit() else -1
                    try:
                        sc = float(r.get("score"))
                        s4 = int(round(sc * 4)) if abs(sc * 4 - round(sc * 4)) < 1e-9 else -99999
                        q = rat(float(r.get("q_value")), max(1, len(allrows)))
                    except (TypeError, ValueError):
                        s4, q = -99999, [0, 1, False]
                    colname = {"mod": "modified_peptide", "prec": "precursor", "grp": "peptide_group"}
                    rws.append({"id": rid, "s4": s4, "q": q, "pep": str(r.get("peptide")),
                                "prot": str(r.get("proteinIds")),
                                "lv": [str(r.get(colname[lv])) for lv in extra], "nf": r["_nf"]})
                files.append({"level": lvl, "td": td, "rows": rws})
        trace = {"mode": "rollup", "dedup": False, "rollup": True, "decoys": True, "nlev": 1 + len(extra),
                 "levels": levels, "rows": allrows, "files": files, "raised": raised, "missing": missing}
        return trace, {"listing": listing, "assign_traces": tr}
    finally:
        if workdir is None:
            shutil.rmtree(wd, ignore_errors=True)
