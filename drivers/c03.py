"""C03 -- competition and rollup keep exactly the best PSM per spectrum / per entity.

(M) Confidence.tla (chunk -> sort -> per-chunk de-dup -> temp files -> glob -> k-way merge -> seen sets)
    against ConfDef (one maximal row per spectrum / entity, sorted, duplicate free) for all canonical tables
    within the bounds, every chunk size, flag combination, sort order among ties and merge-list order.
(G) ConfGen.tla enumerates every canonical table; the driver adds labels, flags, chunk sizes, formats,
    collections/prefixes and runs the real assign_confidence (and brew_rollup on its result files).
(V) ConfTrace.tla accepts the recorded result files iff they satisfy ConfDef, rows are intact, the
    target/decoy split is right and q-values equal TdcDef over exactly the retained rows.
"""
from __future__ import annotations

import copy

import numpy as np

from engine.tlc import run_tlc, MachineryError
from drivers.common import pmap
from drivers import conf, cli

LEVEL = "model_checking"


def tie_free(rows, nlev):
    for i, a in enumerate(rows):
        for b in rows[i + 1:]:
            if a["rank"] != b["rank"]:
                continue
            if a["spec"] == b["spec"] or any(a["key"][k] == b["key"][k] for k in range(nlev)):
                return False
    return True


def table_from_tlc(t, rng, id0=0, second_key=False):
    rows = []
    for i, (sp, ky, rk) in enumerate(t):
        key = list(ky)
        if second_key and len(key) == 1:
            key.append(int(rng.integers(1, 3)))
        rows.append({"id": id0 + i, "spec": int(sp), "key": key, "tgt": bool(rng.random() < 0.6), "rank": int(rk)})
    return rows


def random_table(rng, n, id0=0, nkeys=2):
    nspec = max(1, int(n * rng.choice([0.3, 0.6, 0.9])))
    npep = max(1, int(n * rng.choice([0.2, 0.5, 0.8])))
    maxrank = int(rng.choice([5, 12, 12]))         # ranks 1..12 keep 4*score small; heavy ties by design
    rows = []
    for i in range(n):
        rows.append({"id": id0 + i, "spec": int(rng.integers(1, nspec + 1)),
                     "key": [int(rng.integers(1, npep + 1))] + [int(rng.integers(1, npep // 2 + 2)) for _ in range(nkeys - 1)],
                     "tgt": bool(rng.random() < 0.55), "rank": int(rng.integers(1, maxrank + 1))})
    return rows


FLAGS = [(d, r, k) for d in (True, False) for r in (True, False) for k in (True, False)]


def make_cases(ctx, rng):
    tables = [p[1] for p in run_tlc("ConfGen", "ConfGen_quick.cfg" if ctx.quick else "ConfGen_thorough.cfg", workers=1).prints
              if p and p[0] == "CASE"]
    if len(tables) < 1000:
        raise MachineryError("table generation produced only %d tables" % len(tables))
    ctx.cov["canonical_tables_enumerated"] = len(tables)
    if ctx.quick and len(tables) > 3200:        # quick tier: every table of <= 3 rows and a seeded sample of the 4-row tables
        small = [t for t in tables if len(t) <= 3]
        big = [t for t in tables if len(t) > 3]
        tables = small + [big[int(i)] for i in sorted(rng.permutation(len(big))[:3200 - len(small)])]
    cases = []
    idx = ctx.seed
    for t in tables:
        second = (idx % 3 == 0) and len(t[0][1]) == 1
        rows = table_from_tlc(t, rng, second_key=second)
        nk = len(rows[0]["key"])
        dedup, rollup, decoys = FLAGS[idx % 8]
        if not decoys and not tie_free(rows, nk):
            decoys = True
        n = len(rows)
        cases.append({"kind": "assign", "colls": [{"rows": rows}], "extra_levels": ([["prec"], ["mod"]][idx % 2]) if nk == 2 else [],
                      "dedup": dedup, "rollup": rollup, "decoys": decoys, "chunk": 1 + (idx // 8) % (n + 1),
                      "merge_chunk": [1, 2, 20000][(idx // 5) % 3],
                      "fmt": "parquet" if (idx // 16) % 4 == 3 else "pin", "workers": 1 + (idx // 7) % 3,
                      # a three-column spectrum key (ScanNr, ret_time, ExpMass), the retention time missing for every third spectrum
                      "key_rt": {3: "missing", 7: "full"}.get(idx % 11),
                      # whole-number masses written as integers in a text table (chunks are type-inferred one by one)
                      "int_mass": idx % 11 in (1, 5, 9),
                      # key columns named "Exp Mass" / "ret-time": not Python identifiers (two spectra share each scan number)
                      "odd_names": idx % 11 in (2, 7)})
        idx += 1
    # several collections, with and without prefixes
    nmulti = 300 if ctx.quick else 3000
    for j in range(nmulti):
        k = 2 + (j % 2)
        colls, id0 = [], 0
        for c in range(k):
            t = tables[int(rng.integers(0, len(tables)))]
            rows = table_from_tlc(t, rng, id0=id0)
            for r in rows:
                r["key"] = r["key"][:1]
            colls.append({"rows": rows})
            id0 += 10
        dedup, rollup, _ = FLAGS[j % 8]
        cases.append({"kind": "assign", "colls": colls, "extra_levels": [], "dedup": dedup, "rollup": rollup,
                      "decoys": True, "chunk": 1 + j % 4, "fmt": "pin",
                      "prefixes": (["a", "b", "c"][:k] if j % 3 else None), "workers": 1})
    # larger random tables (heavy ties)
    for j in range(12 if ctx.quick else 500):
        n = int(rng.choice([60, 120, 200]))
        rows = random_table(rng, n)
        dedup, rollup, decoys = FLAGS[j % 8]
        cases.append({"kind": "assign", "colls": [{"rows": rows}], "extra_levels": ["prec"], "dedup": dedup,
                      "rollup": rollup, "decoys": True, "chunk": int(rng.choice([1, 7, 50, n - 1, n, n + 1, 10 ** 6])),
                      "merge_chunk": int(rng.choice([1, 3, 20000])), "fmt": "parquet" if j % 3 == 0 else "pin",
                      "row_group": int(rng.choice([1, 7, 64])), "workers": 1 + j % 4, "key_rt": [None, "missing", None, "full"][j % 4],
                      "int_mass": j % 4 == 2, "odd_names": j % 4 == 3})
    # the stand-alone rollup tool on result files of 2-3 prefixed collections
    for j in range(200 if ctx.quick else 2000):
        k = 2 + (j % 2)
        colls, id0 = [], 0
        for c in range(k):
            t = tables[int(rng.integers(0, len(tables)))]
            rows = table_from_tlc(t, rng, id0=id0, second_key=True)
            if j % 3 == 2:
                for r in rows:
                    r["key"].append(int(rng.integers(1, 3)))
            colls.append({"rows": rows})
            id0 += 10
        cases.append({"kind": "rolluptool", "colls": colls, "extra_levels": [["prec"], ["mod"], ["mod", "prec"]][j % 3], "dedup": bool(j % 2),
                      # (a collection whose prefix BEGINS WITH the tool's file root "rollup" is still an input, not an earlier output)
                      "chunk": 1 + j % 5, "fmt": "pin", "prefixes": (["a", "rollup2", "c"] if j % 4 == 1 else ["a", "b", "c"])[:k], "workers": 1})
    # the command-line run: naming configurations enumerated by TLC from Pipeline.tla
    pipe = [p for p in run_tlc("Pipeline", "Pipeline_gen.cfg", workers=1).prints if p and p[0] == "CASE"]
    if len(pipe) < 100:
        raise MachineryError("Pipeline.tla generated only %d configurations" % len(pipe))
    ncli = 16 if ctx.quick else 400
    for j, k in enumerate(rng.permutation(len(pipe))[:ncli]):
        _, inputs, aggregate, decoys, rollup, ragged = pipe[int(k)]
        cases.append({"kind": "cli", "files": [{"dir": d, "stem": st, "n": int(rng.choice([220, 280])), "seed": int(rng.integers(1, 10 ** 6)),
                                                "ragged": bool(rg)} for (d, st), rg in zip(inputs, ragged)],
                      "aggregate": bool(aggregate), "decoys": True, "rollup": bool(rollup), "dedup": bool(j % 3),
                      "file_root": "xp" if j % 4 == 0 else None, "folds": 2 + j % 2, "workers": 1 + j % 2,
                      "colls": []})
    return cases


def run_case(case):
    """-> list of traces (without tid)"""
    c = copy.deepcopy(case)
    try:
        if c["kind"] == "assign":
            trs, _ = conf.run_assign(c)
            return trs
        if c["kind"] == "cli":
            trs, info = cli.run_cli(c)
            if trs and any(m in trs[0]["raised"] for m in ("Failed to calibrate scores", "No PSMs found below", "No PSMs accepted")):
                # brew stopped with an explicit error (C11 / training): there are no result files to judge
                return [{"skipped": trs[0]["raised"][:80]}]
            for t in trs:
                t["equal_stems"] = bool(info["equal_stems"])
            return trs
        tr, info = conf.run_rollup_tool(c)
        # classification only (known finding F-03c): did some PSM result file handed to the tool have no data row?
        tr["empty_input"] = any(f["level"] == "psms" and not f["rows"] for t in info["assign_traces"] for f in t["files"])
        return [tr]
    except Exception as e:    # harness failure: surfaces as a machinery error, not a verdict
        return [{"harness_error": "%s: %s" % (type(e).__name__, e)}]


def signature(case, tr, failed):
    rows = [(r["spec"], tuple(r["key"]), r["tgt"], r["rank"]) for c in case["colls"] for r in c["rows"]]
    if case["kind"] == "cli":
        return {"api": "cli", "equal_stems": bool(tr.get("equal_stems")), "aggregate": case["aggregate"], "rollup": case["rollup"],
                "dedup": case["dedup"], "file_root": case["file_root"], "files": [(f["dir"], f["stem"], f["ragged"]) for f in case["files"]],
                "raised": (tr.get("raised") or "").split(":")[0]}
    return {"api": "brew_rollup" if case["kind"] == "rolluptool" else "assign_confidence",
            "dedup": case.get("dedup"), "rollup": case.get("rollup", True), "decoys": case.get("decoys", True),
            "ncoll": len(case["colls"]), "prefixed": bool(case.get("prefixes")), "fmt": case.get("fmt"),
            "raised": (tr.get("raised") or "").split(":")[0], "nrows": len(rows), "empty_input": bool(tr.get("empty_input", False)),
            "table": rows if len(rows) <= 8 else "hash:%d" % (hash(tuple(rows)) % 10 ** 9), "chunk": case.get("chunk")}


def corruptions(tr, rng):
    """negative controls: each returns a modified deep copy that violates the property (or None)."""
    out = []
    files = [f for f in tr["files"] if f["rows"]]
    if not files:
        return out
    f = files[int(rng.integers(0, len(files)))]
    fi = tr["files"].index(f)
    j = int(rng.integers(0, len(f["rows"])))

    def mod(fn):
        t = copy.deepcopy(tr)
        fn(t)
        return t
    out.append(("drop_row", mod(lambda t: t["files"][fi]["rows"].pop(j))))
    out.append(("dup_row", mod(lambda t: t["files"][fi]["rows"].insert(j, copy.deepcopy(t["files"][fi]["rows"][j])))))
    out.append(("q_changed", mod(lambda t: t["files"][fi]["rows"][j].update(
        q=[t["files"][fi]["rows"][j]["q"][0], t["files"][fi]["rows"][j]["q"][1] + 1, True]))))
    out.append(("peptide_of_other_row", mod(lambda t: t["files"][fi]["rows"][j].update(pep="K.PEP999K.A"))))
    out.append(("wrong_side", mod(lambda t: t["files"][fi].update(td="d" if f["td"] == "t" else "t"))))
    # a loser instead of the winner
    ids_out = {x["id"] for x in f["rows"]}
    lvl = f["level"]
    for r in tr["rows"]:
        if r["id"] in ids_out:
            continue
        w = f["rows"][j]
        wr = next(x for x in tr["rows"] if x["id"] == w["id"])
        same = (r["spec"] == wr["spec"]) if lvl == "psms" else False
        if same and r["rank"] < wr["rank"] and r["tgt"] == wr["tgt"]:
            def swap(t, r=r):
                t["files"][fi]["rows"][j].update(id=r["id"], s4=r["s4"], pep=r["pep"], prot=r["prot"], lv=r["lv"])
            out.append(("loser_wins", mod(swap)))
            break
    return out


def run(ctx):
    ctx.liveness("Confidence", unfair_control=not ctx.quick)      # termination under weak fairness (Confidence_live.cfg)
    ctx.liveness("Pipeline", unfair_control=not ctx.quick)      # termination under weak fairness (Pipeline_live.cfg)
    rng = np.random.default_rng(ctx.seed)
    # ---------------- (M) ----------------
    ctx.phase("model_checking")
    ctx.model_check("Confidence", "Confidence_quick.cfg", note="rows<=4, 2 spectra, 2 peptides, ranks<=3 (ties), all chunk sizes/flags/merge orders")
    ctx.model_check("Confidence", "Confidence_lev2.cfg", note="two rollup levels, rows<=3")
    if not ctx.quick:
        ctx.model_check("Confidence", "Confidence_thorough.cfg", note="rows<=5, 3 spectra", timeout=3000)
    ctx.model_check("Confidence", "Confidence_asis.cfg", expect_violation="PsmLevelOK",
                    note="AsIs_ChunkDedupOnRollup (the defect repaired by the fix: commit for F-03)")
    ctx.model_check("Confidence", "Confidence_mut1.cfg", expect_violation="RollupLevelsOK", note="seeded fault: seen-set before competition")
    ctx.model_check("Confidence", "Confidence_mut2.cfg", expect_violation="PrefixSorted", note="seeded fault: merge emits smallest head")
    ctx.model_check("Pipeline", "Pipeline_quick.cfg", note="CLI naming: <=3 input files x dirs x stems x aggregate x decoys x rollup x ragged")
    ctx.model_check("Pipeline", "Pipeline_asis.cfg", expect_violation="ResultsOfEveryCollection",
                    note="AsIs_PrefixIsStem: equal stems in different directories collide (open finding F-03d)")
    r = ctx.model_check("Confidence", "Confidence_cov.cfg", coverage=True, note="action coverage")
    ctx.require_actions(r, ["AddRow", "Begin", "WriteChunk", "Glob", "MergeScan", "Finish"])
    # ---------------- (G) + drive ----------------
    ctx.phase("generation")
    cases = make_cases(ctx, rng)
    ctx.phase("driving")
    run_case(cases[0])
    results = pmap(lambda i: run_case(cases[i]), len(cases))
    traces, owner = [], []
    for ci, trs in enumerate(results):
        if trs and "skipped" in trs[0]:
            ctx.cov["cli_runs_stopped_by_explicit_brew_error"] = ctx.cov.get("cli_runs_stopped_by_explicit_brew_error", 0) + 1
            continue
        for t in trs:
            if "harness_error" in t:
                raise MachineryError("driver failed on case %d: %s" % (ci, t["harness_error"]))
            t["tid"] = len(traces) + 1
            traces.append(t)
            owner.append(ci)
        c = cases[ci]
        ctx.count((c["kind"], str([[(r["spec"], tuple(r["key"]), r["tgt"], r["rank"]) for r in cc["rows"]] for cc in c["colls"]]) if c["colls"] else str(c["files"]),
                   c.get("dedup"), c.get("rollup"), c.get("decoys"), c.get("chunk"), c.get("fmt"), c.get("aggregate"), c.get("file_root")))
        if ci in (0, len(cases) // 2) and c["colls"]:
            ctx.sample({"case": {k: v for k, v in c.items() if k != "colls"},
                        "rows": c["colls"][0]["rows"][:6], "files": [{"level": f["level"], "td": f["td"], "rows": f["rows"][:3]} for f in trs[0]["files"][:3]]})
    # ---------------- (V) ----------------
    ctx.phase("validation")
    verdicts = ctx.validate("ConfTrace", "Trace.cfg", traces)
    for t, ci in zip(traces, owner):
        v = verdicts[t["tid"]]
        if not v["accept"]:
            ctx.reject({"case": cases[ci], "trace": t}, v["failed"], signature(cases[ci], t, v["failed"]))
    ctx.phase("hook_traces")
    from drivers import hooktrace
    # whole command-line runs with the hooks on: verify -> parse -> brew -> confidence as one event sequence
    clis = [c for c in cases if c["kind"] == "cli"][: (3 if ctx.quick else 25)]
    hooktrace.hook_phase(ctx, "C03", calls=[("cli run %d" % i, (lambda c=c: cli.run_cli(copy.deepcopy(c)))) for i, c in enumerate(clis)],
                         repo_select=hooktrace.REPO_TESTS[4:5] if ctx.quick else hooktrace.REPO_TESTS[4:])
    # negative controls
    ctx.phase("negative_controls")
    crng = np.random.default_rng(ctx.seed + 7)
    bad, names = [], {}
    for i in crng.permutation(len(traces))[:150]:
        t = traces[int(i)]
        if not verdicts[t["tid"]]["accept"] or (not t["decoys"]):
            continue
        for name, b in corruptions(t, crng):
            b["tid"] = len(bad) + 1
            bad.append(b)
            names[name] = names.get(name, 0) + 1
    ctx.negative_controls("ConfTrace", "Trace.cfg", bad, name="result-file corruptions %s" % names)
    ctx.assume("tiny tables use a stub PEP algorithm registered in the public PEP_ALGORITHM dict (PEP values are C06's business)")
    ctx.assume("scores handed to assign_confidence are dyadic (rank/4 - 2) so that text round trips are exact")
    # the property as observed at the command line: how the user's options reach the stages (CliFlow.tla, drivers/cliflow.py)
    from drivers import cliflow
    cliflow.family(ctx, "C03")
    # the stand-alone rollup tool over HISTORIES in one directory (RollupTool.tla generates them, RollupToolTrace.tla judges the
    # recorded runs): the rule on previously written result files, for every base level and with the tool's own earlier files around
    ctx.phase("rollup_histories")
    from drivers import rolltool
    rolltool.run_family(ctx, "C03", 36 if ctx.quick else 1200, 12 if ctx.quick else 400)
    return ctx.finish(
        rule="tables = every canonical table (spectra/entities named by first appearance, dense ranks with ties) enumerated by "
             "TLC from ConfGen.tla (<=4 rows, <=3 spectra, <=2 entities per level; quick: all tables of <=3 rows + a seeded sample of "
             "the 4-row tables, thorough: all), each run through the real assign_confidence "
             "with rotating labels/flags/chunk sizes/merge chunk/format/workers; plus multi-collection runs with and without "
             "prefixes, random 60-200 row tables with heavy ties, and brew_rollup on the result files of 2-3 prefixed "
             "collections; histories of the rollup tool in one directory (put / drop / roll over 2 collections x 2 versions x 2 file roots x 5 "
             "base levels, from RollupTool.tla, plus seeded longer ones); distinct = distinct (table, labels, flags, chunk, format)", exhaustive=not ctx.quick)


def replay(ctx, case):
    if isinstance(case.get("case"), dict) and case["case"].get("kind") == "cliflow":
        from drivers import cliflow
        return cliflow.replay(ctx, case, "C03")
    if isinstance(case.get("case"), dict) and "rolltool_history" in case["case"]:
        from drivers import rolltool
        rolltool.replay_history(ctx, "C03", case["case"]["rolltool_history"])
        ctx.count("replay")
        ctx.count("replay2")
        return ctx.finish(rule="replay of one recorded rollup history")
    c = case["case"]["case"]
    trs = run_case(c)
    for i, t in enumerate(trs):
        t["tid"] = i + 1
    v = ctx.validate("ConfTrace", "Trace.cfg", trs)
    for t in trs:
        if not v[t["tid"]]["accept"]:
            ctx.reject({"case": c, "trace": t}, v[t["tid"]]["failed"], signature(c, t, v[t["tid"]]["failed"]))
        ctx.count(t["tid"])
    ctx.count("replay")
    ctx.sample(trs[0])
    return ctx.finish(rule="replay of one recorded case")
