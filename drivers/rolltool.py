"""Histories of the stand-alone rollup tool (mokapot.brew_rollup) in ONE directory: RollupTool.tla generates the histories
(put / drop / roll), this driver replays them into a real directory with the real tool and records, for every roll, the
tool's own files afterwards, whether any other file changed, and the same roll over the input files alone in a fresh
directory.  RollupToolTrace.tla (TLC) judges the recorded histories.  Shared by C03 (the rule) and C09 (leftovers)."""
from __future__ import annotations

import argparse
import copy
import importlib
import os
import shutil
import sys
import tempfile
import zlib
from pathlib import Path

import numpy as np

from engine.core import rat, MachineryError
from engine.tlc import run_tlc
from drivers import conf, mk
from drivers.common import pmap

OWNER = {"KnownIds": "C03", "Completed": "C03", "LevelsWritten": "C03", "Winners": "C03", "Split": "C03", "Order": "C03",
         "QValues": "C03", "InputsUntouched": "C09", "SameAsClean": "C09"}
EXTRA_INTERNAL = {"mod": "modified_peptide", "prec": "precursor", "grp": "peptide_group"}
KEY_ORDER = ["precursor", "modified_peptide", "peptide", "peptide_group"]
# renderings of the model's stems: the root "r", the collection "rb" whose name BEGINS with that root, the unrelated "a", "q"
RENDER = [{"r": "rollup", "rb": "rollup2", "a": "a", "q": "mix"},
          {"r": "mix", "rb": "mixA", "a": "ctl", "q": "rollup"},
          {"r": "r", "rb": "r_old", "a": "exp1", "q": "q"},
          {"r": "rollup", "rb": "rollup_old", "a": "b", "q": "roll"},
          # a file root that itself holds a dot (--file_root exp1.rollup), next to a collection named like its first component
          {"r": "exp1.rollup", "rb": "exp1.rollup2", "a": "exp1", "q": "exp1.roll"}]


def _stem_key(stem):
    return "".join(stem)


def histories_from_model(quick):
    g = run_tlc("RollupTool", "RollupTool_gen.cfg", workers=1)
    hs = [p[1] for p in g.prints if p and p[0] == "CASE"]
    if len(hs) < 1000:
        raise MachineryError("RollupTool_gen produced only %d histories: %s" % (len(hs), g.output[-500:]))
    return hs, g


def make_case(hist, seed, extra, ties=False):
    """contents for every (stem, version) used by the history; row ids are 1..N (= positions in the trace's row table)"""
    rng = np.random.default_rng(seed)
    pairs = sorted({(_stem_key(o["stem"]), int(o["v"])) for o in hist if o["op"] == "put"})
    rows, content = [], {}
    nent = int(rng.integers(3, 7))
    for (st, v) in pairs:
        ids = []
        if v == 2 and (st, 1) in content:       # the second version keeps some PSMs of the first
            ids = [i for i in content[(st, 1)] if rng.random() < 0.4]
        for _ in range(int(rng.integers(4, 9))):
            rows.append({"key": [int(rng.integers(1, nent + 1)) for _ in range(4)], "tgt": bool(rng.random() < 0.55)})
            ids.append(len(rows))
        # one target and one decoy whose entities are theirs alone at every level: every level file of the collection then holds a
        # target and a decoy (a result file without any row is finding F-03c's business, outside this family's domain)
        for tg in (True, False):
            rows.append({"key": [100 + len(rows)] * 4, "tgt": tg})
            ids.append(len(rows))
        content[(st, v)] = ids
    # every collection keeps targets and decoys (a result file without rows is finding F-03c's business)
    for (st, v), ids in content.items():
        if all(rows[i - 1]["tgt"] for i in ids):
            rows[ids[0] - 1]["tgt"] = False
        if not any(rows[i - 1]["tgt"] for i in ids):
            rows[ids[-1] - 1]["tgt"] = True
    perm = rng.permutation(len(rows))
    for i, r in enumerate(rows):
        r["rank"] = int(perm[i]) // 2 + 1 if ties else int(perm[i]) + 1
    return {"hist": hist, "seed": int(seed), "extra": list(extra), "rows": rows, "content": {"%s/%d" % k: v for k, v in content.items()},
            "render": (int(seed) % 100000 // 5 + int(seed)) % len(RENDER), "ties": bool(ties)}


def _parse(path, nrows):
    hdr, rws = mk.read_result(path)
    ids, qs = [], []
    for r in rws:
        pid = str(r.get("psm_id", r.get("PSMId", "")))
        ids.append(int(pid[1:]) if pid.startswith("r") and pid[1:].isdigit() else -1)
        try:
            qs.append(rat(float(r.get("q_value", r.get("q-value"))), max(1, nrows)))
        except (TypeError, ValueError):
            qs.append([0, 1, False])
    return ids, qs


def _own_files(d, root, nrows):
    out = []
    for fn in sorted(os.listdir(d)):
        if not fn.startswith(root + "."):
            continue
        parts = fn[len(root) + 1:].split(".")
        if len(parts) != 2 or parts[0] not in ("targets", "decoys", "temp"):
            continue
        ids, qs = _parse(d / fn, nrows)
        out.append({"td": {"targets": "t", "decoys": "d", "temp": "temp"}[parts[0]], "lvl": parts[1][:-1], "ids": ids,
                    "q": qs if parts[0] != "temp" else []})
    return out


def _snapshot(d, root):
    snap = {}
    for fn in sorted(os.listdir(d)):
        if not fn.startswith(root + "."):
            with open(d / fn, "rb") as fh:
                snap[fn] = zlib.crc32(fh.read())
    return snap


def run_history(case):
    import mokapot  # noqa
    BR = sys.modules.get("mokapot.brew_rollup") or importlib.import_module("mokapot.brew_rollup")
    mk.install_stub_pep()
    wd = Path(tempfile.mkdtemp(prefix="rollh_"))
    try:
        ren = RENDER[case["render"]]
        rows, extra = case["rows"], case["extra"]
        n = len(rows)
        pairs = sorted(case["content"])
        colls = []
        for pk in pairs:
            cr = []
            for i in case["content"][pk]:
                r = rows[i - 1]
                k = dict(zip(KEY_ORDER, r["key"]))
                cr.append({"id": i, "spec": i, "key": [k["peptide"]] + [k[EXTRA_INTERNAL[e]] for e in extra], "tgt": r["tgt"], "rank": r["rank"]})
            colls.append({"rows": cr})
        events = []
        work = wd / "work"
        work.mkdir()
        if colls:
            acase = {"colls": colls, "extra_levels": extra, "dedup": True, "rollup": True, "decoys": True, "chunk": 1000, "fmt": "pin",
                     "prefixes": ["S%d" % j for j in range(len(colls))], "workers": 1}
            _, info = conf.run_assign(acase, workdir=wd, keep=True)
            stage = Path(info["out"])
        for o in case["hist"]:
            if o["op"] in ("put", "drop"):
                name = ren[_stem_key(o["stem"])]
                for fn in os.listdir(work):
                    if fn.startswith(name + ".targets.") or fn.startswith(name + ".decoys."):
                        os.unlink(work / fn)
                if o["op"] == "drop":
                    events.append({"op": "drop", "stem": list(name)})
                    continue
                j = pairs.index("%s/%d" % (_stem_key(o["stem"]), int(o["v"])))
                files = []
                for fn in sorted(os.listdir(stage)):
                    if fn.startswith("S%d." % j):
                        rest = fn[len("S%d." % j):]
                        shutil.copy(stage / fn, work / (name + "." + rest))
                        kind, lvl = rest.split(".")
                        ids, _ = _parse(stage / fn, n)
                        files.append({"td": "t" if kind == "targets" else "d", "lvl": lvl[:-1], "ids": ids})
                events.append({"op": "put", "stem": list(name), "files": files})
            else:
                root = ren[_stem_key(o["root"])]

                def roll(d):
                    cfg = argparse.Namespace(level=o["base"], src_dir=d, dest_dir=d, file_root=root, peps_algorithm="stub",
                                             qvalue_algorithm="tdc", seed=1, verbosity=0, suppress_warnings=True)
                    try:
                        BR.do_rollup(cfg)
                        return ""
                    except BaseException as e:
                        if isinstance(e, KeyboardInterrupt):
                            raise
                        return "%s: %s" % (type(e).__name__, str(e)[:160])
                before = _snapshot(work, root)
                clean = Path(tempfile.mkdtemp(prefix="clean_", dir=wd))
                for fn in before:
                    shutil.copy(work / fn, clean / fn)
                raised = roll(work)
                after = _snapshot(work, root)
                craised = roll(clean)
                events.append({"op": "roll", "root": list(root), "base": o["base"], "raised": raised, "own": _own_files(work, root, n),
                               "others_same": before == after, "clean_raised": craised, "clean": _own_files(clean, root, n)})
                shutil.rmtree(clean, ignore_errors=True)
        return {"rows": [{"key": r["key"], "tgt": r["tgt"], "rank": r["rank"]} for r in rows],
                "cols": ["peptide"] + [EXTRA_INTERNAL[e] for e in extra], "events": events}
    except Exception as e:
        import traceback
        return {"harness_error": "%s: %s %s" % (type(e).__name__, e, traceback.format_exc()[-800:])}
    finally:
        shutil.rmtree(wd, ignore_errors=True)


def random_history(rng, nops):
    stems = [["a"], ["r", "b"]]
    roots = [["r"], ["q"]]
    bases = ["psm", "precursor", "modifiedpeptide", "peptide", "peptidegroup"]
    h = []
    present = set()
    for k in range(nops):
        u = rng.random()
        if k == nops - 1 or (u < 0.45 and present):
            h.append({"op": "roll", "root": roots[int(rng.integers(0, 2))], "base": bases[int(rng.integers(0, 5))]})
        elif u < 0.85 or not present:
            s = stems[int(rng.integers(0, 2))]
            h.append({"op": "put", "stem": s, "v": int(rng.integers(1, 3))})
            present.add(tuple(s))
        else:
            s = sorted(present)[int(rng.integers(0, len(present)))]
            h.append({"op": "drop", "stem": list(s)})
            present.discard(s)
    return h


def run_family(ctx, owner, n_model, n_random):
    """model checks of RollupTool.tla (the owner's share), histories replayed into the real tool, verdict by RollupToolTrace.
    Clauses owned by the other property are counted, not reported, here (that property's check reports them)."""
    rng = np.random.default_rng(ctx.seed * 7 + (3 if owner == "C03" else 9))
    ctx.model_check("RollupTool", "RollupTool_quick.cfg" if ctx.quick else "RollupTool_thorough.cfg",
                    note="every history of 4 operations (put/drop/roll x 2 collections x 2 versions x 2 roots x 5 base levels), every merge order")
    if owner == "C03":
        for c, inv, nt in (("mut1", "RollObeysRule", "own-root test without the dot"), ("mut3", "RollObeysRule", "one seen-set for all levels"),
                           ("mut4", "RollObeysRule", "level loop left at the first seen entity"), ("mut5", "RollObeysRule", "seen key includes is_decoy"),
                           ("asis", "RollObeysRule", "AsIs_BaseNames: command-line level word not translated (F-03f, repaired)")):
            ctx.model_check("RollupTool", "RollupTool_%s.cfg" % c, expect_violation=inv, note=nt)
        r = ctx.model_check("RollupTool", "RollupTool_cov.cfg", coverage=True, note="action coverage")
        ctx.require_actions(r, ["StartOp", "Glob", "Filter", "Levels", "MergeStep", "MergeDone", "WriteLevel", "Finish"])
    else:
        ctx.model_check("RollupTool", "RollupTool_mut2.cfg", expect_violation="LeftoversNeverMatter", note="readers built from the unfiltered file lists")
        ctx.model_check("RollupTool", "RollupTool_mut6.cfg", expect_violation="LeftoversNeverMatter", note="temp files appended to instead of truncated")
        ctx.model_check("RollupTool", "RollupTool_fmt.cfg" if ctx.quick else "RollupTool_fmt2.cfg",
                        note="collections as text or Parquet files: a roll reads and writes the format the directory dictates, refuses when both are present")
        ctx.model_check("RollupTool", "RollupTool_obs1.cfg", expect_violation="RefusalNeverByLeftovers",
                        note="shown reachable: the tool's own earlier Parquet files alone make it refuse text inputs (finding F-09c, driven by C09's fmt_switch scenarios)")
        ctx.liveness("RollupTool", unfair_control=not ctx.quick)
    hs, _ = histories_from_model(ctx.quick)
    # prefer histories with at least two rolls or a drop (the interesting ones), keep a share of the plain ones
    rich = [h for h in hs if sum(o["op"] == "roll" for o in h) >= 2 or any(o["op"] == "drop" for o in h)]
    # ... and, always, histories that roll AGAIN with the same root at a base level that is also an output level, after the inputs
    # changed in between (the tool's own earlier results lie among the files it globs): rendered under every naming scheme in turn
    def reroll(h):
        for i in range(len(h)):
            for k in range(i + 2, len(h)):
                if (h[i]["op"] == "roll" and h[k]["op"] == "roll" and h[i]["root"] == h[k]["root"] and h[i]["base"] == h[k]["base"]
                        and h[i]["base"] in ("precursor", "peptide") and any(o["op"] in ("put", "drop") for o in h[i + 1:k])
                        and any(o["op"] == "put" for o in h[:i])):
                    return True
        return False
    rr = [h for h in hs if reroll(h)]
    n_rr = max(2 * len(RENDER), n_model // 3)
    pick = ([rr[int(i)] for i in rng.permutation(len(rr))[:n_rr]] + [rich[int(i)] for i in rng.permutation(len(rich))[:n_model // 2]]
            + [hs[int(i)] for i in rng.permutation(len(hs))[:n_model // 6]])
    ctx.cov["rolltool_reroll_histories"] = min(n_rr, len(rr))
    pick += [random_history(rng, int(rng.integers(4, 8))) for _ in range(n_random)]
    extras = [["mod", "prec", "grp"], ["prec"], [], ["mod", "prec"], ["prec", "grp"]]
    cases = [make_case(h, int(ctx.seed * 100000 + j), extras[j % len(extras)], ties=(j % 7 == 6)) for j, h in enumerate(pick)]
    for j, c in enumerate(cases):
        c["render"] = ([4, 0, 4, 1, 4, 2, 4, 3][j % 8]) if j < n_rr else j % len(RENDER)     # re-rolls: every second one under the dotted file root
        if j < n_rr and "prec" not in c["extra"] and any(o["op"] == "roll" and o["base"] == "precursor" for o in c["hist"]):
            c["extra"] = ["mod", "prec", "grp"]            # a precursor-level re-roll needs the precursor files
    cases = [dict(make_case(c["hist"], c["seed"], c["extra"], ties=c["ties"]), render=c["render"]) for c in cases]
    run_history(cases[0])
    res = pmap(lambda i: run_history(cases[i]), len(cases), chunk=4)
    traces = []
    for i, t in enumerate(res):
        if "harness_error" in t:
            raise MachineryError("rolltool driver failed on history %d: %s" % (i, t["harness_error"]))
        t["tid"] = i + 1
        traces.append(t)
    verdicts = ctx.validate("RollupToolTrace", "Trace.cfg", traces)
    other = 0
    for c, t in zip(cases, traces):
        v = verdicts[t["tid"]]
        ctx.count(("rolltool", str([(o["op"], "".join(o.get("stem", o.get("root"))), o.get("base", o.get("v"))) for o in c["hist"]]), tuple(c["extra"]), c["ties"]))
        mine = sorted(cl for cl in v["failed"] if OWNER.get(cl) == owner)
        other += len([cl for cl in v["failed"] if OWNER.get(cl) != owner])
        if mine:
            rolls = [e for e in t["events"] if e["op"] == "roll"]
            ctx.reject({"rolltool_history": c, "trace": {"events": [{k: e[k] for k in e if k in ("op", "stem", "root", "base", "raised", "clean_raised", "others_same")} for e in t["events"]]}},
                       mine, {"api": "brew_rollup history", "bases": sorted({e["base"] for e in rolls}), "raised": sorted({e["raised"].split(":")[0] for e in rolls}),
                              "clauses": mine, "cols": t["cols"]})
    ctx.cov["rolltool_histories"] = len(cases)
    ctx.cov["rolltool_rolls"] = sum(1 for t in traces for e in t["events"] if e["op"] == "roll")
    ctx.cov["rolltool_clause_failures_owned_by_other_property"] = other
    ctx.sample({"rolltool_history": [(o["op"], "".join(o.get("stem", o.get("root"))), o.get("base", o.get("v"))) for o in cases[1]["hist"]],
                "roll_events": [{"root": "".join(e["root"]), "base": e["base"], "raised": e["raised"], "own": [(f["td"], f["lvl"], f["ids"]) for f in e["own"]][:4]}
                                for e in traces[1]["events"] if e["op"] == "roll"][:2]})
    # negative controls: corrupted recorded histories must be rejected by the named clause
    bad = []
    for c, t in zip(cases, traces):
        if len(bad) >= 40 or verdicts[t["tid"]]["failed"] or c["ties"]:
            continue
        fresh = lambda e: {g["lvl"] for g in e["clean"] if g["td"] == "t"}      # the levels this very roll wrote
        ks = [k for k, e in enumerate(t["events"]) if e["op"] == "roll" and e["raised"] == "" and e["clean_raised"] == ""
              and any(f["td"] == "t" and f["ids"] and f["lvl"] in fresh(e) for f in e["own"])]
        if not ks:
            continue
        k = ks[-1]
        fi = [i for i, f in enumerate(t["events"][k]["own"]) if f["td"] == "t" and f["ids"] and f["lvl"] in fresh(t["events"][k])][0]
        if owner == "C03":
            b = copy.deepcopy(t)
            f = b["events"][k]["own"][fi]
            f["ids"], f["q"] = f["ids"][1:], f["q"][1:]                 # an entity lost
            bad.append(b)
            b = copy.deepcopy(t)
            b["events"][k]["own"][fi]["td"] = "d"                        # targets written to the decoy file
            for f in b["events"][k]["own"]:
                if f is not b["events"][k]["own"][fi] and f["lvl"] == b["events"][k]["own"][fi]["lvl"] and f["td"] == "d":
                    f["td"] = "t"
            bad.append(b)
        else:
            b = copy.deepcopy(t)
            b["events"][k]["others_same"] = False                        # an input file modified
            bad.append(b)
            b = copy.deepcopy(t)
            f = b["events"][k]["clean"]
            tf = [g for g in f if g["td"] == "t" and g["ids"]]
            if tf:
                tf[0]["ids"] = tf[0]["ids"][1:]                          # the dirty directory gave another result than the clean one
                tf[0]["q"] = tf[0]["q"][1:]
                bad.append(b)
    for j, b in enumerate(bad):
        b["tid"] = j + 1
    if bad:
        ctx.negative_controls("RollupToolTrace", "Trace.cfg", bad, name="rollup histories: entity lost / targets in the decoy file (C03), input modified / differs from clean (C09)")
    ctx.assume("rollup histories: collections are written by the real assign_confidence (text format), every collection keeps targets and decoys; "
               "collection prefixes contain no dot other than as part of a shared leading component (file roots may: exp1.rollup); the tool is called through do_rollup with a stub PEP algorithm")
    return len(cases)


def replay_history(ctx, owner, case):
    t = run_history(case)
    if "harness_error" in t:
        raise MachineryError(t["harness_error"])
    t["tid"] = 1
    v = ctx.validate("RollupToolTrace", "Trace.cfg", [t])[1]
    mine = sorted(cl for cl in v["failed"] if OWNER.get(cl) == owner)
    if mine:
        ctx.reject({"rolltool_history": case}, mine, {"api": "brew_rollup history", "replay": True, "clauses": mine})
