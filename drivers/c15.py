"""C15 -- picked protein: one entry per target/decoy protein-group pair, won by its best peptide.

(M) Picked.tla: strip -> peptide_map lookup -> guard (unmatched must be shared, > 10 % neither = error) -> pair key ->
    groupby_max (any tied winner) -> TDC, against the declarative layer D_* for every canonical table of <= 4 rows
    over <= 3 pairs (quick) / <= 5 rows over <= 4 pairs (thorough), group kinds single / same / sub / swap; two AsIs_
    configs show the deviations of the code as counterexamples, four seeded faults must be caught.
(G) TLC enumerates the canonical (peptide ids, owners, target flags, ranks) tables as CASE lines; the driver renders the
    grouping as a real FASTA file (C16's renderer: distinct tryptic strings, mirrored or make_decoys decoys, pairs made
    of one protein, two identical proteins or a protein and a subset of it, permuted entry order), reads it with the
    real mokapot.read_fasta, writes the peptides in rotating notations (plain, flanks, "[+16]", "(ox)", lower-case
    tokens, combinations, an all-lower-case table), gives them dyadic scores (rank/4 - 2) and calls the real
    picked_protein, resp. assign_confidence(proteins=..., decoys=True) end to end on a PSM table.
(V) PickedTrace.tla accepts a recorded result iff it satisfies the declarative layer (ties -> any winner; q-values by
    TdcDef over exactly the entries in the end-to-end mode).
"""
from __future__ import annotations

import json
import logging
import os
import re
import shutil
import tempfile
from concurrent.futures import ThreadPoolExecutor
from pathlib import Path

import numpy as np
import pandas as pd

from engine.core import rat
from engine.tlc import run_tlc, MachineryError
from drivers.common import pmap
from drivers import c16, mk

LEVEL = "model_checking"
TMPROOT = "/dev/shm" if os.path.isdir("/dev/shm") else None
NOTATIONS = ["plain", "flank", "mass", "named", "lower", "combo", "nterm", "flankmass"]
LOWER_OK = ["plain", "flank", "mass", "named", "flankmass"]      # notations that survive an all-lower-case table
MASSES = ["[+16]", "[+15.995]", "[-17.03]", "[+57.02146]", "[1.1]", "[Oxidation]"]
NAMED = ["(ox)", "(ph)", "(Oxidation)", "(UniMod:35)", "(+15.99)"]
LOWTOK = ["ox", "p", "cam", "m"]
FLANKS = [("K.", ".A"), ("-.", ".R"), ("R.", ".-"), ("A.", ".C"), ("AK.", ".GT"), (".", ".")]   # incl. several / no flanking residues
_CASE_RE = re.compile(r'<<\s*"CASE",\s*(\d+),\s*<<([^>]*)>>,\s*<<([^>]*)>>,\s*<<([^>]*)>>,\s*<<([^>]*)>>\s*>>')


# ------------------------------------------------------------------ cases
def tlc_cases(cfg):
    r = run_tlc("Picked", cfg, workers=4, parse_prints=False, timeout=1500)
    if not r.ok:
        raise MachineryError("generation run failed: %s %s" % (r.violated, r.error))
    out = []
    for m in _CASE_RE.finditer(r.output):
        ints = lambda s: [int(x) for x in s.replace("\n", " ").split(",") if x.strip()]
        bools = lambda s: [x.strip() == "TRUE" for x in s.replace("\n", " ").split(",") if x.strip()]
        n = int(m.group(1))
        c = {"n": n, "pid": ints(m.group(2)), "own": ints(m.group(3)), "ptgt": bools(m.group(4)), "rank": ints(m.group(5))}
        if len(c["pid"]) != n or len(c["rank"]) != n or len(c["own"]) != max(c["pid"]) or len(c["ptgt"]) != len(c["own"]):
            raise MachineryError("malformed CASE line: %s" % m.group(0))
        out.append(c)
    if len(out) != r.distinct:
        raise MachineryError("generation: %d CASE lines for %d initial states" % (len(out), r.distinct))
    return out, r


def random_table(rng, nmax, pmax):
    """A seeded random table in the same abstract form (not canonical: any row order, any pair numbering)."""
    n = int(rng.integers(5, nmax + 1))
    npid = int(rng.integers(max(1, n // 2), n + 1))
    pid = list(range(1, npid + 1)) + [int(x) for x in rng.integers(1, npid + 1, n - npid)]
    pid = [pid[int(k)] for k in rng.permutation(n)]
    relabel = {}
    for x in pid:
        relabel.setdefault(x, len(relabel) + 1)
    pid = [relabel[x] for x in pid]
    np_ = int(rng.integers(1, pmax + 1))
    pshared = float(rng.choice([0.0, 0.2, 0.5]))
    own = [0 if rng.random() < pshared else int(rng.integers(1, np_ + 1)) for _ in range(npid)]
    used = sorted({o for o in own if o})
    own = [used.index(o) + 1 if o else 0 for o in own]
    ptgt = [bool(rng.random() < rng.choice([0.4, 0.7])) for _ in range(npid)]
    style = int(rng.integers(0, 3))
    rank = rng.integers(1, (2 if style == 0 else n) + 1, n) if style < 2 else rng.permutation(n) + 1
    _, dense = np.unique(rank, return_inverse=True)
    return {"n": n, "pid": pid, "own": own, "ptgt": ptgt, "rank": [int(x) + 1 for x in dense]}


def make_case(idx, base, seed, mode):
    """Rendering parameters of one abstract table; everything seeded by (seed, idx)."""
    rng = np.random.default_rng([seed, idx, 15])
    c = {"idx": idx, "seed": int(seed * 1000003 + idx), "mode": mode}
    c.update({k: list(base[k]) if isinstance(base[k], list) else base[k] for k in ("n", "pid", "own", "ptgt", "rank")})
    used = max([0] + c["own"])
    npair = max(used, 1, 2 if 0 in c["own"] else 1)
    if rng.integers(0, 3) == 0:
        npair += 1                                               # a pair the table does not mention
    swap_case = idx % 13 == 5                                    # decoy entries of a twin pair in the other order
    kinds = []
    for p in range(npair):
        k = ["single", "same", "sub"][int(rng.integers(0, 3))]
        if swap_case and k != "single":
            k = "swap"
        kinds.append(k)
    if swap_case and used >= 1 and "swap" not in kinds[:used]:
        kinds[int(rng.integers(0, used))] = "swap"
    c["kinds"] = kinds
    # pairs holding every shared peptide (at least two)
    c["shared_in"] = []
    for o in c["own"]:
        if o == 0:
            k = int(rng.integers(2, npair + 1))
            c["shared_in"].append(sorted(int(x) + 1 for x in rng.permutation(npair)[:k]))
        else:
            c["shared_in"].append([])
    c["fasta"] = ["mirror", "mirror", "make_decoys_rev", "none", "mirror", "make_decoys_shuffle", "mirror", "mirror"][idx % 8]
    c["lower_table"] = idx % 11 == 7
    c["perm"] = [int(x) for x in rng.permutation(c["n"])] if idx % 3 else list(range(c["n"]))
    c["index_style"] = ["range", "offset", "labels"][(idx // 3) % 3]
    c["rng_style"] = ["int", "generator"][(idx // 2) % 2]
    return c


# ------------------------------------------------------------------ rendering
def build_fasta(c, workdir):
    """The FASTA file of a case, read with the real read_fasta.  Returns (Proteins object, description)."""
    import mokapot
    npid = len(c["own"])
    kinds = c["kinds"]
    npair = len(kinds)
    rng = np.random.default_rng([c["seed"], 151])
    nxt = npid
    inc, members = [], []                    # incidence rows (target proteins), pair -> protein indexes
    for p in range(1, npair + 1):
        nxt += 1
        anchor = nxt                          # a unique peptide of the pair that the table does not mention
        a = {k + 1 for k in range(npid) if c["own"][k] == p or p in c["shared_in"][k]} | {anchor}
        kind = kinds[p - 1]
        if kind == "sub":
            nxt += 1
            b = {anchor} | {q for q in a if q != anchor and rng.random() < 0.5}
            a = a | {nxt}
            rows = [a, b]
        elif kind in ("same", "swap"):
            rows = [a, set(a)]
        else:
            rows = [a]
        members.append(list(range(len(inc), len(inc) + len(rows))))
        inc.extend(sorted(r) for r in rows)
    mode = c["fasta"]
    for attempt in range(30):
        case16 = {"idx": c["idx"], "inc": inc, "npep": nxt, "seed": c["seed"] + 7919 * attempt,
                  "mode": "none" if mode == "none" else mode}
        r = c16.render(case16, workdir)
        strings = {v: k for k, v in r["pepid"].items()}
        tp = [strings[q] for q in range(1, nxt + 1)]
        dp = [strings[q] for q in range(nxt + 1, 2 * nxt + 1)]
        # target-only FASTA: the code assigns a decoy peptide to a target peptide of the same composition;
        # the assignment is a function only if compositions are distinct
        if mode != "none" or len({"".join(sorted(s)) for s in tp}) == len(tp):
            break
    else:
        raise RuntimeError("could not draw peptides of distinct composition")
    ntgt = r["ntgt"]
    has_dec = len(r["prots"]) > ntgt
    if mode != "none" and len(r["prots"]) != 2 * ntgt:
        raise RuntimeError("renderer did not produce a decoy entry for every target")
    # entry order: targets permuted; decoys in the same relative order, twins of a "swap" pair exchanged
    torder = [int(x) for x in rng.permutation(ntgt)]
    dorder = list(torder)
    for p, mem in enumerate(members):
        if kinds[p] == "swap":
            i, j = dorder.index(mem[0]), dorder.index(mem[1])
            dorder[i], dorder[j] = dorder[j], dorder[i]
    tids = [t + 1 for t in torder]
    dids = [ntgt + t + 1 for t in dorder] if has_dec else []
    style = int(rng.integers(0, 3))
    if style == 0:
        order = tids + dids
    elif style == 1:
        order = dids + tids
    else:                                     # random merge keeping both relative orders
        order, a, b = [], list(tids), list(dids)
        while a or b:
            take_a = bool(a) and (not b or rng.random() < 0.5)
            order.append(a.pop(0) if take_a else b.pop(0))
    if mode != "none" and c["idx"] % 5 == 3:
        # a large spiked-in standard WITHOUT a decoy counterpart: the target with the most peptides of the file (none of them in
        # the peptide table).  The file still has decoys for every other target.
        known = set(tp) | set(dp)
        spike = []
        while len(spike) < nxt + 4:
            s = "".join("ACDEFGHILMNQSTVWY"[int(j)] for j in rng.integers(0, 17, max(1, len(tp[0]) - 1))) + "K"   # a length the digest keeps
            if s not in known and s not in spike:
                spike.append(s)
        r["entries"][len(r["entries"]) + 1] = ("SPIKE_IN_STANDARD", "".join(spike))
        order = order + [len(r["entries"])]
    paths = c16.write_files(case16, r, order, workdir, "p%d" % os.getpid())
    kw = dict(r["params"])
    if kw["enzyme"] == "compiled":
        kw["enzyme"] = re.compile("[KR]")
    try:
        prot = mokapot.read_fasta(paths[0] if len(paths) == 1 else tuple(paths), **kw)
    finally:
        for p in paths:
            os.unlink(p)
    names = [p["name"] for p in r["prots"][:ntgt]]
    desc = {"prefix": r["prefix"], "fasta_decoys": has_dec, "fasta_mode": r["mode"],
            "pairs": [{"t": [names[t] for t in mem], "d": [r["prefix"] + names[t] for t in mem]} for mem in members],
            "peps": [{"own": int(c["own"][k]), "tseq": tp[k], "dseq": dp[k]} for k in range(npid)],
            "pm": [{"seq": s, "members": g.split(", ")} for s, g in sorted(prot.peptide_map.items())],
            "sh": sorted(prot.shared_peptides.keys()),
            "pmap": sorted([str(k), str(v)] for k, v in prot.protein_map.items()),
            "has_decoys": bool(prot.has_decoys)}
    return prot, desc


def notate(seq, nota, rng, lower_table):
    pos = int(rng.integers(1, len(seq) + 1))
    fl = FLANKS[int(rng.integers(0, len(FLANKS)))]
    mass = MASSES[int(rng.integers(0, len(MASSES)))]
    named = NAMED[int(rng.integers(0, len(NAMED)))]
    low = LOWTOK[int(rng.integers(0, len(LOWTOK)))]
    ins = lambda s, tok, at: s[:at] + tok + s[at:]
    if nota == "plain":
        s = seq
    elif nota == "flank":
        s = fl[0] + seq + fl[1]
    elif nota == "mass":
        s = ins(seq, mass, pos)
    elif nota == "named":
        s = ins(seq, named, pos)
    elif nota == "lower":
        s = ins(seq, low, pos) if rng.integers(0, 2) else "n" + seq + "c"
    elif nota == "nterm":
        s = "n[+42.01]" + seq if rng.integers(0, 2) else "[+42]" + ins(seq, named, pos)
    elif nota == "flankmass":
        s = fl[0] + ins(seq, "[+15.99]", pos) + fl[1]
    elif nota == "combo":
        s = fl[0] + "n" + ins(ins(seq, mass, pos), named, max(1, pos - 1)) + low + fl[1]
    else:
        raise ValueError(nota)
    return s.lower() if lower_table else s


def build_rows(c, desc):
    """The peptide table in input order: pid, tgt, rank, s4, str, seq, nota."""
    rng = np.random.default_rng([c["seed"], 152])
    pool = LOWER_OK if c["lower_table"] else NOTATIONS
    rows, seen = [], set()
    start = int(rng.integers(0, len(pool)))
    for j, i in enumerate(c["perm"]):
        k = c["pid"][i] - 1
        tgt = bool(c["ptgt"][k])
        seq = desc["peps"][k]["tseq"] if tgt else desc["peps"][k]["dseq"]
        for attempt in range(200):
            nota = pool[(start + j + attempt) % len(pool)] if attempt < len(pool) else pool[int(rng.integers(1, len(pool)))]
            s = notate(seq, nota, rng, c["lower_table"])
            if s not in seen:
                break
        else:
            raise RuntimeError("could not write distinct peptide strings")
        seen.add(s)
        rows.append({"pid": k + 1, "tgt": tgt, "rank": int(c["rank"][i]), "s4": int(c["rank"][i]) - 8,
                     "str": s, "seq": seq, "nota": nota, "label": tgt})
    # "tgt" is the SIDE of the pair whose sequence the row carries; "label" is the target/decoy label the table gives the row.  In every
    # fourth directly driven case over a target/decoy database every third row is labelled against its side (a decoy-labelled PSM whose
    # sequence is a unique peptide of a target protein, and vice versa): ownership is by sequence, the pair still gets one entry
    if c["mode"] == "direct" and c["idx"] % 4 == 2 and desc["fasta_decoys"]:
        for j, r in enumerate(rows):
            if j % 3 == 1:
                r["label"] = not r["tgt"]
    return rows


def _members(group):
    return group.split(", ") if isinstance(group, str) else ["<not a string: %r>" % (group,)]


def _s4(x):
    try:
        v = float(x) * 4
        return int(round(v)) if abs(v - round(v)) < 1e-9 else -99999
    except (TypeError, ValueError):
        return -99999


def run_direct(c, prot, rows):
    from mokapot.picked_protein import picked_protein
    n = len(rows)
    tcol, pcol, scol = [("Label", "peptide", "score"), ("is_target", "Peptide", "mokapot score")][c["idx"] % 2]
    df = pd.DataFrame({"PSMId": ["r%d" % i for i in range(n)], tcol: [r.get("label", r["tgt"]) for r in rows],
                       pcol: [r["str"] for r in rows], "proteinIds": ["x"] * n,
                       scol: [r["s4"] / 4.0 for r in rows]})
    if c["index_style"] == "offset":
        df.index = [100 + 3 * int(x) for x in np.random.default_rng(c["seed"]).permutation(n)]
    elif c["index_style"] == "labels":
        df.index = ["i%d" % i for i in range(n)]
    rng = c["seed"] % 1000 if c["rng_style"] == "int" else np.random.default_rng(c["seed"])
    try:
        res = picked_protein(df, tcol, pcol, scol, prot, rng)
    except Exception as e:           # recorded: the call must succeed on every input of the domain
        return [], type(e).__name__, "%s: %s" % (type(e).__name__, str(e)[:160])
    out = []
    for _, x in res.iterrows():
        out.append({"members": _members(x["mokapot protein group"]), "best": str(x["best peptide"]),
                    "stripped": str(x["stripped sequence"]), "s4": _s4(x[scol]), "tgt": bool(x[tcol]),
                    "q": [0, 1, True]})
    return out, "", ""


def run_e2e(c, prot, rows, workdir):
    import mokapot
    mk.install_stub_pep()
    n = len(rows)
    wd = Path(tempfile.mkdtemp(prefix="e2e_", dir=workdir))
    try:
        df = pd.DataFrame({"SpecId": ["r%d" % i for i in range(n)], "Label": [1 if r["tgt"] else -1 for r in rows],
                           "ScanNr": list(range(1, n + 1)), "ExpMass": [500.0 + i for i in range(n)],
                           "f0": [float(r["rank"]) for r in rows], "f1": [0.0] * n,
                           "Peptide": [r["str"] for r in rows], "Proteins": ["prot_r%d" % i for i in range(n)]})
        extra = []
        if c["idx"] % 4 == 1:
            # one more roll-up level after the peptides: groups that lump neighbouring rows of the same label together (the
            # protein level is estimated from the PEPTIDE table whatever other levels exist)
            df.insert(7, "PeptideGroup", ["G%d%s" % (i // 2, "t" if r["tgt"] else "d") for i, r in enumerate(rows)])
            extra = ["grp"]
        ds = mk.make_dataset(df, wd / "in.pin", extra_levels=extra)
        out = wd / "out"
        out.mkdir()
        try:
            # every second end-to-end case streams the table in small confidence chunks (1-3 rows): the protein level is won per
            # target / decoy pair over the WHOLE peptide table, wherever chunk borders fall
            # (end-to-end cases have idx = 9j + 1 in the quick tier: select on idx div 9)
            with mk.patched(CONFIDENCE_CHUNK_SIZE=(1 + (c["idx"] // 18) % 3) if (c["idx"] // 9) % 2 == 1 else 10 ** 6):
                mokapot.assign_confidence(psms=[ds], scores=[np.array([r["s4"] / 4.0 for r in rows], dtype=float)],
                                          dest_dir=out, prefixes=[None], decoys=True, deduplication=True, do_rollup=True,
                                          proteins=prot, max_workers=1, peps_algorithm="stub", rng=c["seed"] % 1000)
        except BaseException as e:
            if isinstance(e, KeyboardInterrupt):
                raise
            return [], type(e).__name__, "%s: %s" % (type(e).__name__, str(e)[:160])
        res = []
        for tgt, fn in ((True, "targets.proteins"), (False, "decoys.proteins")):
            if not (out / fn).exists():
                return [], "MissingFile", fn
            _, rws = mk.read_result(out / fn)
            for x in rws:
                res.append((tgt, x))
        nent = max(1, len(res))
        rec = []
        for tgt, x in res:
            try:
                q = rat(float(x.get("q-value")), nent)
            except (TypeError, ValueError):
                q = [0, 1, False]
            rec.append({"members": _members(x.get("mokapot protein group") or ""), "best": str(x.get("best peptide")),
                        "stripped": str(x.get("stripped sequence")), "s4": _s4(x.get("score")), "tgt": tgt, "q": q})
        return rec, "", ""
    finally:
        shutil.rmtree(wd, ignore_errors=True)


def classify(c, desc, rows):
    """Input-side classification of a case (never looks at the result)."""
    own = c["own"]
    contrib = [r for r in rows if own[r["pid"] - 1] >= 1]
    first = {}
    for e in desc["pm"]:
        first[frozenset(e["members"])] = e["members"][0]
    differs = False
    for p, pr in enumerate(desc["pairs"], 1):
        ft, fd = first.get(frozenset(pr["t"])), first.get(frozenset(pr["d"]))
        sides = {r["tgt"] for r in contrib if own[r["pid"] - 1] == p}
        if ft is not None and fd is not None and fd != desc["prefix"] + ft and len(sides) == 2:
            differs = True
    return {"all_shared": not contrib,
            "decoy_group_named_in_other_order": differs,
            "fasta_decoys": desc["fasta_decoys"],
            "shared_decoy_row": any((not r["tgt"]) and own[r["pid"] - 1] == 0 for r in rows)}


def call_real(c, workdir):
    prot, desc = build_fasta(c, workdir)
    rows = build_rows(c, desc)
    if c["mode"] == "e2e":
        out, raised, msg = run_e2e(c, prot, rows, workdir)
    else:
        if c["idx"] % 3 == 1 and len(rows) >= 2:
            # the same Proteins object has already served another peptide table (a two-step history): first half of the rows,
            # then only the targets; the results of these calls are not judged, the object must not remember them
            run_direct(c, prot, rows[: len(rows) // 2])
            run_direct(c, prot, [r for r in rows if r["tgt"]] or rows[:1])
        out, raised, msg = run_direct(c, prot, rows)
    tr = {"mode": c["mode"], "rows": rows, "raised": raised, "message": msg, "out": out, "kinds": c["kinds"]}
    tr.update(desc)
    tr["cls"] = classify(c, desc, rows)
    return tr


def signature(c, tr, failed=()):
    """The defect class of a rejected case, from its input only.  The classes are made exclusive (first match) so that
    one listed finding / one fix accounts for a class:
      target_only_fasta_shared_decoy_row  FASTA without decoy entries and a decoy row whose peptide is shared
      all_shared                          no row maps to a unique group
      decoy_group_named_in_other_order    a pair with unique peptides on both sides whose decoy group name does not
                                          start with the prefixed first member of the target group name"""
    cls = tr["cls"]
    failed = set(failed)
    k1 = (not cls["fasta_decoys"]) and cls["shared_decoy_row"]
    k2 = (not k1) and cls["all_shared"]
    k3 = (not k1) and (not k2) and cls["decoy_group_named_in_other_order"]
    # a class only accounts for the clauses its defect can break; anything else stays unclassified
    k1 = k1 and tr["raised"] == "" and failed <= {"KnownGroup", "OnePerPair", "OwnerGroup", "SharedNever", "QExact"}
    k2 = k2 and tr["raised"] == "KeyError" and failed <= {"Returned"}
    k3 = k3 and tr["raised"] == "" and failed <= {"OnePerPair", "BestPeptide"}
    sig = {"api": "picked_protein" if c["mode"] == "direct" else "assign_confidence(proteins=)", "raised": tr["raised"],
           "target_only_fasta_shared_decoy_row": k1, "all_shared": k2, "decoy_group_named_in_other_order": k3}
    if not (k1 or k2 or k3):        # unclassified: keep the whole case in the signature
        sig.update({k: c[k] for k in ("n", "pid", "own", "ptgt", "rank", "kinds", "fasta", "lower_table", "seed")})
    return sig


# ------------------------------------------------------------------ negative controls
def corrupt(tr, kind, rng):
    t = json.loads(json.dumps(tr))
    own = [e["own"] for e in t["peps"]]
    rows, out = t["rows"], t["out"]
    by_str = {r["str"]: r for r in rows}
    present = {own[r["pid"] - 1] for r in rows if own[r["pid"] - 1] >= 1}

    def entry(p, side, r, q=None):
        return {"members": list(t["pairs"][p - 1]["t" if side else "d"]), "best": r["str"], "stripped": r["seq"],
                "s4": r["s4"], "tgt": r["tgt"], "q": q or [1, 1, True]}
    if kind == "entry_without_unique_peptide":
        absent = [p for p in range(1, len(t["pairs"]) + 1) if p not in present]
        shared = [r for r in rows if own[r["pid"] - 1] == 0]
        if not absent or not shared:
            return None
        r = shared[int(rng.integers(0, len(shared)))]
        out.append(entry(absent[0], r["tgt"], r))
        return t
    if kind == "worse_peptide":
        cands = []
        for k, o in enumerate(out):
            r0 = by_str[o["best"]]
            for r in rows:
                if own[r["pid"] - 1] == own[r0["pid"] - 1] and r["tgt"] == r0["tgt"] and r["rank"] < r0["rank"]:
                    cands.append((k, r))
        if not cands:
            return None
        k, r = cands[int(rng.integers(0, len(cands)))]
        out[k].update(best=r["str"], stripped=r["seq"], s4=r["s4"])
        return t
    if kind == "shared_counted":
        shared = [r for r in rows if own[r["pid"] - 1] == 0]
        if not shared or not out:
            return None
        r = shared[int(rng.integers(0, len(shared)))]
        k = int(rng.integers(0, len(out)))
        if rng.integers(0, 2):
            out[k].update(best=r["str"], stripped=r["seq"], s4=r["s4"], tgt=r["tgt"])
        else:
            out.append(dict(out[k], best=r["str"], stripped=r["seq"], s4=r["s4"], tgt=r["tgt"]))
        return t
    if kind == "wrong_q":
        if t["mode"] != "e2e" or not out:
            return None
        k = int(rng.integers(0, len(out)))
        q = out[k]["q"]
        out[k]["q"] = [q[0], q[1] + 1, True] if q[0] > 0 else [1, 2, True]
        return t
    if kind == "entry_dropped":
        if not out:
            return None
        del out[int(rng.integers(0, len(out)))]
        return t
    if kind == "pair_not_collapsed":
        cands = []
        for o in out:
            r0 = by_str[o["best"]]
            for r in rows:
                if own[r["pid"] - 1] == own[r0["pid"] - 1] and r["tgt"] != r0["tgt"]:
                    cands.append(r)
        if not cands:
            return None
        r = cands[int(rng.integers(0, len(cands)))]
        out.append(entry(own[r["pid"] - 1], r["tgt"], r))
        return t
    if kind == "other_side":
        if not out:
            return None
        k = int(rng.integers(0, len(out)))
        r0 = by_str[out[k]["best"]]
        out[k]["members"] = list(t["pairs"][own[r0["pid"] - 1] - 1]["d" if r0["tgt"] else "t"])
        return t
    if kind == "wrong_report":
        if not out:
            return None
        k = int(rng.integers(0, len(out)))
        how = int(rng.integers(0, 3))
        if how == 0:
            out[k]["stripped"] = out[k]["best"] if out[k]["best"] != out[k]["stripped"] else out[k]["stripped"] + "K"
        elif how == 1:
            out[k]["s4"] += 1
        else:
            out[k]["tgt"] = not out[k]["tgt"]
        return t
    if kind == "raised":
        if not present:
            return None
        t.update(raised="KeyError", out=[])
        return t
    raise ValueError(kind)


CONTROLS = ["entry_without_unique_peptide", "worse_peptide", "shared_counted", "wrong_q", "entry_dropped",
            "pair_not_collapsed", "other_side", "wrong_report", "raised"]


# ------------------------------------------------------------------ the check

def model_checks(ctx):
    """All TLC runs of role (M), started together."""
    jobs = [("Picked_quick.cfg", dict(note="<= 4 rows, <= 3 pairs, kinds single/swap, unmapped peptides"), 6),
            ("Picked_kinds.cfg", dict(note="<= 3 rows, <= 3 pairs, kinds single/same/sub/swap, unmapped peptides"), 3)]
    if not ctx.quick:
        jobs.append(("Picked_thorough.cfg", dict(note="<= 5 rows, <= 4 pairs, every pair of kind swap"), 8))
    jobs += [
        ("Picked_asis1.cfg", dict(expect_violation="NoErrorInDomain",
                                  note="as the code: KeyError when no row maps to a unique group"), 1),
        ("Picked_asis2.cfg", dict(expect_violation="OnePerPair",
                                  note="as the code: pair key from the first member name, decoy group named in the other order"), 1),
        ("Picked_asis2ok.cfg", dict(note="as the code (first-name pair key): correct while target and decoy groups are "
                                         "named in the same order"), 2),
        ("Picked_mut1.cfg", dict(expect_violation="NoErrorInDomain", note="seeded fault: no stripping"), 1),
        ("Picked_mut2.cfg", dict(expect_violation="SharedNever", note="seeded fault: shared peptides contribute"), 1),
        ("Picked_mut3.cfg", dict(expect_violation="OnePerPair", note="seeded fault: pair not collapsed"), 1),
        ("Picked_mut4.cfg", dict(expect_violation="BestPeptide", note="seeded fault: worst peptide kept"), 1),
        ("Picked_cov.cfg", dict(coverage=True, note="action coverage (<= 3 rows, 2 pairs)"), 2)]
    with ThreadPoolExecutor(max_workers=len(jobs)) as ex:      # ctx.model_check serialises its own bookkeeping
        out = list(ex.map(lambda j: ctx.model_check("Picked", j[0], workers=j[2], parse_prints=False, timeout=3000, **j[1]), jobs))
    res = {j[0]: r for j, r in zip(jobs, out)}
    ctx.require_actions(res["Picked_cov.cfg"], ["Strip", "Map", "Guard", "Pair", "Best", "Conf"])

def run(ctx):
    ctx.liveness("Picked", unfair_control=not ctx.quick)      # termination under weak fairness (Picked_live.cfg)
    logging.disable(logging.CRITICAL)
    rng = np.random.default_rng(ctx.seed)
    # ---------------- (M) + (G): independent TLC runs, started together ----------------
    ctx.phase("model_checking")
    gen_cfg = "Picked_gen4.cfg" if ctx.quick else "Picked_gen5.cfg"
    with ThreadPoolExecutor(max_workers=1) as side:
        gen_future = side.submit(tlc_cases, gen_cfg)
        model_checks(ctx)
        base, _ = gen_future.result()
    ctx.phase("generation")
    nbase = len(base)
    if not ctx.quick:        # thorough: every table of <= 4 rows, every second one of 5 rows (the half rotates with the seed)
        base = [b for k, b in enumerate(base) if b["n"] <= 4 or (k + ctx.seed) % 2 == 0]
    extra = [random_table(rng, 6, 4) for _ in range(600 if ctx.quick else 10000)]
    extra += [random_table(rng, 40, 10) for _ in range(100 if ctx.quick else 2000)]
    cases = []
    for k, b in enumerate(base + extra):
        cases.append(make_case(len(cases), b, ctx.seed, "direct"))
        # end to end: every 8th table (quick) / every table of <= 4 rows and every 12th larger one (thorough)
        if (k + ctx.seed) % (8 if ctx.quick else 12) == 0 or (not ctx.quick and b["n"] <= 4):
            cases.append(make_case(len(cases), b, ctx.seed, "e2e"))
    # ---------------- drive the real code ----------------
    ctx.phase("driving")
    workdir = tempfile.mkdtemp(prefix="c15_", dir=TMPROOT)
    try:
        call_real(cases[0], workdir)
        call_real(next(c for c in cases if c["mode"] == "e2e"), workdir)      # warm up imports before forking

        def one(i):
            try:
                return call_real(cases[i], workdir)
            except Exception as e:           # harness failure (never a verdict)
                return {"harness_error": "%s: %s" % (type(e).__name__, e)}
        traces = pmap(one, len(cases))
    finally:
        shutil.rmtree(workdir, ignore_errors=True)
    bad = [(i, t["harness_error"]) for i, t in enumerate(traces) if "harness_error" in t]
    if bad:
        raise MachineryError("rendering failed for %d cases, e.g. case %d: %s" % (len(bad), bad[0][0], bad[0][1]))
    for i, tr in enumerate(traces):
        tr["tid"] = i + 1
        c = cases[i]
        ctx.count((c["n"], tuple(c["pid"]), tuple(c["own"]), tuple(c["ptgt"]), tuple(c["rank"]), c["mode"]))
        if i % 2903 == 17:
            ctx.sample({"case": {k: c[k] for k in ("n", "pid", "own", "ptgt", "rank", "kinds", "fasta", "mode")},
                        "pairs": tr["pairs"], "rows": [[r["str"], r["tgt"], r["s4"]] for r in tr["rows"]],
                        "out": tr["out"], "raised": tr["raised"]})
    ctx.cov["cases_from_tlc"] = nbase
    ctx.cov["end_to_end_runs"] = sum(1 for c in cases if c["mode"] == "e2e")
    ctx.cov["target_only_fasta_runs"] = sum(1 for t in traces if not t["fasta_decoys"])
    # ---------------- (V) ----------------
    ctx.phase("validation")
    slim = [{k: v for k, v in t.items() if k not in ("message", "cls", "kinds", "fasta_mode")} for t in traces]
    verdicts = ctx.validate("PickedTrace", "Trace.cfg", slim)
    rejected = [i for i, t in enumerate(traces) if not verdicts[t["tid"]]["accept"]]
    broken = [i for i in rejected if "InputOK" in verdicts[traces[i]["tid"]]["failed"]]
    if broken:
        raise MachineryError("the Proteins object read from the rendered FASTA does not realise the intended structure "
                             "in %d cases, e.g. %s" % (len(broken), json.dumps(cases[broken[0]])))
    classes = {}
    for i in sorted(rejected, key=lambda i: (cases[i]["n"], len(cases[i]["kinds"]), i)):     # smallest first
        tr, c = traces[i], cases[i]
        sig = signature(c, tr, verdicts[tr["tid"]]["failed"])
        key = ", ".join(["api=" + sig["api"]] + [k for k in ("target_only_fasta_shared_decoy_row", "all_shared",
                        "decoy_group_named_in_other_order") if sig[k]] + ["raised=" + sig["raised"]])
        classes[key] = classes.get(key, 0) + 1
        ctx.reject({"case": c, "trace": tr}, verdicts[tr["tid"]]["failed"], sig)
    ctx.cov["rejected_by_class"] = classes
    # negative controls
    ctx.phase("negative_controls")
    nrng = np.random.default_rng(ctx.seed + 1)
    order = [int(x) for x in nrng.permutation(len(traces))]
    badtr, kinds = [], {}
    for kind in CONTROLS:
        got = 0
        for i in order:
            if not verdicts[traces[i]["tid"]]["accept"]:
                continue
            b = corrupt(slim[i], kind, nrng)
            if b is None:
                continue
            b["tid"] = len(badtr) + 1
            badtr.append(b)
            got += 1
            if got >= 40:
                break
        kinds[kind] = got
        if got == 0 and not (ctx.violations or ctx.known_hits):
            raise MachineryError("no trace offered a place for the negative control %s" % kind)
    ctx.negative_controls("PickedTrace", "Trace.cfg", badtr, name="corrupted results %s" % kinds)
    ctx.assume("every peptide of the table is a peptide of the digest (unique to a group or shared): the code refuses a "
               "table in which more than 10 % of the peptides are neither, which at <= 10 rows is any such peptide; "
               "decoy peptides are the decoy versions of digest peptides and are flagged as decoys")
    ctx.assume("the peptide table holds every peptide string once (the peptide level of assign_confidence guarantees it); "
               "end to end every PSM has its own spectrum and peptide string, so the PSM and peptide levels retain every row; "
               "do_rollup=True, higher score = better (the protein level is computed from the peptide-level file)")
    ctx.assume("modification / flanking notations are those strip_peptides documents: X.SEQ.Y flanks, [..] and (..) "
               "modifications (also N-terminal, also with a '.' inside), inserted lower-case tokens, or an entirely "
               "lower-case table")
    ctx.assume("the decoy group of a target group holds the prefixed names of its members; the FASTA mirrors every "
               "target entry (C16's renderer) or holds targets only")
    return ctx.finish(
        rule="cases = every canonical peptide table (rows sorted by rank, peptide ids and pairs numbered by first use: "
             "stripped peptide per row, owner pair or shared per peptide, target flag per peptide, dense ranks with "
             "ties) of <= %d rows over <= %d pairs enumerated by TLC from Picked.tla Init, plus seeded random tables "
             "(<= 6 rows / <= 40 rows over <= 10 pairs); each rendered as a FASTA file (pairs of kind single / same / "
             "sub / swap, extra pairs, mirrored / make_decoys / target-only), rotating notations, row order, index and "
             "rng style; direct call for every table, end to end for %s; distinct = distinct (table, mode)"
             % ((4, 3, "every 8th") if ctx.quick else (5, 4, "every table of <= 4 rows and every 12th larger one (thorough: "
                                                              "every table of <= 4 rows, half of the 5-row tables)")),
        exhaustive=True)


def replay(ctx, case):
    logging.disable(logging.CRITICAL)
    c = case["case"]["case"]
    workdir = tempfile.mkdtemp(prefix="c15_", dir=TMPROOT)
    try:
        tr = call_real(c, workdir)
    finally:
        shutil.rmtree(workdir, ignore_errors=True)
    tr["tid"] = 1
    slim = {k: v for k, v in tr.items() if k not in ("message", "cls", "kinds", "fasta_mode")}
    v = ctx.validate("PickedTrace", "Trace.cfg", [slim])[1]
    if "InputOK" in v["failed"]:
        raise MachineryError("replayed case does not realise its structure")
    if not v["accept"]:
        ctx.reject({"case": c, "trace": tr}, v["failed"], signature(c, tr, v["failed"]))
    ctx.count(1)
    ctx.count(2)
    ctx.sample({"rows": tr["rows"], "out": tr["out"], "raised": tr["raised"], "message": tr["message"]})
    return ctx.finish(rule="replay of one recorded case")
