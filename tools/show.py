#!/usr/bin/env python3
"""show.py <seeded-or-benign id> ... : one-paragraph outcome of seed_test / benign_test runs"""
import json, sys, os
V = os.path.dirname(os.path.dirname(os.path.abspath(__file__)))
for s in sys.argv[1:]:
    d = "benign" if s.startswith("B-") else "seeded"
    m = json.load(open(os.path.join(V, d, s, "meta.json")))
    v = m["verification"]
    if d == "seeded":
        print(s, "confirmed=%s" % v.get("confirmed"), "demo_changed=%s demo_clean=%s suite_ok=%s" % (v.get("demo_exit_changed"), v.get("demo_exit_clean"), v.get("suite_ok")),
              {k: ("CAUGHT" if c["caught"] else "missed exit %d" % c["exit"]) for k, c in v["checks"].items()}, v.get("error", ""))
    else:
        print(s, "applies=%s sanity=%s suite_ok=%s" % (v.get("applies"), v.get("sanity_exit"), v.get("suite_ok")),
              {k: ("silent" if c["silent"] else "ALARM exit %d" % c["exit"]) for k, c in v["checks"].items()}, v.get("error", ""))
    for k, c in v["checks"].items():
        bad = (not c.get("caught")) if d == "seeded" else (not c.get("silent"))
        if bad or "-v" in sys.argv:
            for l in c["lines"][:4]:
                print("     ", k, l[:260])
            if d == "benign" and c.get("tail") and not any(l.startswith("VIOLATION") for l in c["lines"]):
                print("      tail:", c["tail"][-700:].replace("\n", "\n        "))
