#!/usr/bin/env python3
"""Markdown summary of evidence/*.json and seeded/*/meta.json (pasted into DESIGN.md §10)."""
import glob, json, os
V = os.path.dirname(os.path.dirname(os.path.abspath(__file__)))
print("| id | tier | level | TLC states | traces validated vs impl | cases (distinct) | neg. controls rejected | known findings hit | violations | wall s |")
print("|---|---|---|---|---|---|---|---|---|---|")
for f in sorted(glob.glob(V + "/evidence/C*.json")):
    e = json.load(open(f)); c = e["coverage"]
    nc = c.get("negative_controls", {})
    ncs = "%d/%d" % (sum(v["rejected"] for v in nc.values()), sum(v["supplied"] for v in nc.values())) if nc else "-"
    kf = ", ".join("%s×%d" % (k["id"], k["cases"]) for k in c.get("known_findings_hit", [])) or "-"
    print("| %s | %s | %s | %s | %s | %s (%s) | %s | %s | %s | %.0f |" % (e["property_id"], e["tier"], e["level"], f"{c.get('states',0):,}", f"{c.get('traces_validated_against_impl',0):,}",
          f"{c.get('evaluations',0):,}", f"{c.get('distinct_nontrivial',0):,}", ncs, kf, e.get("violations", 0), e["wall_s"]))
print()
print("| seeded change | property | what it changes | needs to manifest | confirmed | caught by |")
print("|---|---|---|---|---|---|")
for f in sorted(glob.glob(V + "/seeded/*/meta.json")):
    m = json.load(open(f)); v = m.get("verification", {})
    caught = ", ".join("%s%s" % (k, "" if r["caught"] else " (MISSED, exit %s)" % r["exit"]) for k, r in v.get("checks", {}).items())
    print("| %s | %s | %s | %s | %s | %s |" % (os.path.basename(os.path.dirname(f)), m.get("property", ""), str(m.get("summary", ""))[:160].replace("|", "/"),
          str(m.get("needs_to_manifest", ""))[:160].replace("|", "/"), "yes" if v.get("confirmed") else "NO", caught))

if "--benign" in __import__("sys").argv:
    print()
    print("| property-preserving change | area | what it changes | applies / sanity / suite | checks run against it |")
    print("|---|---|---|---|---|")
    for f in sorted(glob.glob(V + "/benign/*/meta.json")):
        m = json.load(open(f)); v = m.get("verification", {})
        res = ", ".join("%s %s" % (k, "silent" if r.get("silent") else "ALARM (exit %s)" % r.get("exit")) for k, r in v.get("checks", {}).items()) or v.get("error", "")[:80]
        note = m.get("judgement", "")
        print("| %s | %s | %s | %s / %s / %s | %s%s |" % (os.path.basename(os.path.dirname(f)), m.get("area", ""), str(m.get("summary", ""))[:220].replace("|", "/"),
              "yes" if v.get("applies") else "NO", v.get("sanity_exit"), v.get("suite_ok"), res, (" — " + note) if note else ""))
