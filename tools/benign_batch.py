#!/usr/bin/env python3
"""usage: benign_batch.py <area>:<variant>[:<checks>] ...   (BENIGN_PAR in parallel, default 2); results under /verif/benign/B-<area>-<variant>/"""
import subprocess, sys, os
from concurrent.futures import ThreadPoolExecutor
V = os.path.dirname(os.path.dirname(os.path.abspath(__file__)))
def one(spec):
    parts = spec.split(":")
    area, v = parts[0], parts[1]
    d = "/tmp/benign/out/" + area
    checks = parts[2] if len(parts) > 2 else open(d + "/checks.txt").read().strip()
    sid = "B-%s-%s" % (area, v)
    cmd = ["python3", os.path.join(V, "tools/benign_test.py"), sid, "%s/patch_%s.diff" % (d, v), "%s/sanity_%s.py" % (d, v), "%s/meta_%s.json" % (d, v), checks]
    with open("/tmp/benigntest_%s.log" % sid, "w") as fh:
        subprocess.run(cmd, cwd=V, stdout=fh, stderr=subprocess.STDOUT)
    print("done", sid, flush=True)
with ThreadPoolExecutor(max_workers=int(os.environ.get("BENIGN_PAR", "2"))) as ex:
    list(ex.map(one, sys.argv[1:]))
