#!/usr/bin/env python3
"""Markdown inventory of spec/: module, role, lines, configs, drivers that use it (pasted into DESIGN.md 10.1)."""
import glob, os, re
V = os.path.dirname(os.path.dirname(os.path.abspath(__file__)))
drivers = {os.path.basename(p): open(p).read() for p in glob.glob(V + "/drivers/*.py")}
rows = []
for p in sorted(glob.glob(V + "/spec/*.tla")):
    name = os.path.basename(p)[:-4]
    src = open(p).read()
    m = re.search(r"\(\*\s*(.*?)(?:\n\s*\n|\*\))", src, re.S)
    first = " ".join((m.group(1) if m else "").split())[:150]
    cfgs = [c for c in glob.glob(V + "/spec/%s*.cfg" % name) if re.match(r"%s(_|\.)" % re.escape(name), os.path.basename(c))]
    role = ("acceptor (V)" if name.endswith("Trace") else "generator (G)" if name.endswith("Gen") else
            "definitions" if name.endswith("Def") or name == "Rat" else "inductive (Apalache)" if name.endswith("Ind") else "model (M)")
    used = sorted(d[:-3].upper() for d, t in drivers.items() if re.match(r"c\d\d\.py", d) and re.search(r'"%s"' % re.escape(name), t))
    rows.append((name, role, len(src.splitlines()), len(cfgs), ", ".join(used) or "(instantiated by other modules)", first))
print("| module | role | lines | configs | used by | first words of its header |")
print("|---|---|---|---|---|---|")
for r in rows:
    print("| `%s` | %s | %d | %d | %s | %s |" % r)
print()
print("%d modules, %d lines of TLA+, %d configs" % (len(rows), sum(r[2] for r in rows), len(glob.glob(V + "/spec/*.cfg"))))
