#!/usr/bin/env python3
"""Prompts for the FALSE-ALARM round: sub-agents write property-PRESERVING changes (refactorings, legitimate freedoms) per code
area; the checks of the area's properties are then run against each and must stay silent (exit 0).
usage: benign_prompt.py <outroot> [<area> ...]  -> <outroot>/<area>/prompt.txt (worktrees /tmp/benign/wt_<area> at /repo HEAD)"""
import json, os, subprocess, sys
V = os.path.dirname(os.path.dirname(os.path.abspath(__file__)))
props = {json.loads(l)["id"]: json.loads(l) for l in open(os.path.join(V, "properties.jsonl"))}
TEMPLATE = open(os.path.join(V, "tools", "benign_prompt_template.txt")).read()
AREAS = {
    "brew": ("mokapot/brew.py and the fold / training-set code of mokapot/dataset.py (_split, make_train_sets, _predict, calibrate_scores)", ["C02", "C05", "C07", "C11", "C08"]),
    "conf": ("mokapot/confidence.py, mokapot/confidence_writer.py, mokapot/utils.py (merge_sort, get_next_row, groupby_max), mokapot/brew_rollup.py", ["C03", "C05", "C09", "C14", "C07"]),
    "model": ("mokapot/model.py and the label / best-feature code of mokapot/dataset.py (_update_labels, update_labels, find_best_feature, calibrate_scores)", ["C12", "C07", "C01", "C11"]),
    "qval": ("mokapot/qvalues.py and mokapot/peps.py", ["C01", "C06"]),
    "pin": ("mokapot/parsers/pin.py, mokapot/parsers/pin_to_tsv.py, mokapot/parsers/helpers.py and the verify step of mokapot/mokapot.py", ["C10", "C19", "C05", "C09"]),
    "tab": ("mokapot/tabular_data.py and mokapot/streaming.py", ["C13", "C14", "C05"]),
    "fasta": ("mokapot/parsers/fasta.py, mokapot/proteins.py, mokapot/peptides.py", ["C16", "C17", "C18"]),
    "prot": ("mokapot/picked_protein.py and mokapot/parsers/pepxml.py", ["C15", "C20"]),
}
outroot = sys.argv[1]
for area in (sys.argv[2:] or list(AREAS)):
    where, pids = AREAS[area]
    wt = "/tmp/benign/wt_" + area
    subprocess.run("git -C /repo worktree remove --force %s; rm -rf %s; git -C /repo worktree add -q --detach %s HEAD" % (wt, wt, wt), shell=True,
                   stdout=subprocess.DEVNULL, stderr=subprocess.DEVNULL)
    out = os.path.join(outroot, area)
    os.makedirs(out, exist_ok=True)
    ptxt = "\n\n".join("Property %s: %s\nStatement: %s\nQuantified over: %s" % (p, props[p]["title"], props[p]["statement"], props[p]["quantifier"]["text"]) for p in pids)
    open(os.path.join(out, "prompt.txt"), "w").write(TEMPLATE.format(WT=wt, OUT=out, PROPS=ptxt, AREA=where, AREA_ID=area))
    open(os.path.join(out, "checks.txt"), "w").write(",".join(pids))
    print(area, pids)
