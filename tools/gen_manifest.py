#!/usr/bin/env python3
"""Regenerates /verif/MANIFEST.json from the table below (single source of truth for the interface)."""
import json, os
HERE = os.path.dirname(os.path.dirname(os.path.abspath(__file__)))

# id -> (level, technique, level text, level note, design_ref)
CHECKS = {
 "C01": ("model_checking",
         "TLC model checking of Tdc.tla (scan of qvalues.py = declarative QDef, all weak orders x labellings) + TLC trace validation (TdcTrace.tla) of calls recorded from the real tdc/_update_labels on every TLC-enumerated input",
         "The implementation-shaped model of the sort/cumulate/tie-group/running-minimum scan is proved equal to the defining formula for every weak order and labelling up to N=5 (all argsort tie orders; N=6, sampled N=7 in thorough); every one of those inputs, in both directions and under rotating dtypes/label encodings/rescalings/permutations/APIs, is then executed on the real code and the recorded q-values (exact rationals) and labels are accepted or rejected by TLC against the same definition.",
         "Trusted: TLC, the JSON trace encoding, rational reconstruction of float32 q-values (denominator <= n, 2e-6 relative). Small-scope hypothesis for n > 6 is covered only by random vectors (n <= 400).",
         "DESIGN.md §3 C01"),
 "C03": ("model_checking",
         "TLC model checking of Confidence.tla (chunk/sort/de-dup/temp files/glob/k-way merge/seen sets vs ConfDef) + TLC trace validation (ConfTrace.tla) of result files written by the real assign_confidence and brew_rollup on every TLC-enumerated canonical table",
         "The implementation-shaped pipeline model is checked against the declarative retained-set predicates for every canonical table within the bounds, every chunk size, flag combination, tie order and merge-list order; TLC then enumerates every canonical table (ConfGen.tla), the driver runs the real assign_confidence (rotating labels, flags, chunk sizes, formats, workers; several collections with/without prefixes; larger random tables with heavy ties) and brew_rollup on its result files, and TLC accepts each recorded set of result files iff it satisfies the same predicates, rows are intact, the target/decoy split is right and q-values equal the C01 formula over exactly the retained rows.",
         "Trusted: TLC, the independent result-file reader of the driver, dyadic scores (exact text round trip), stub PEP algorithm on tiny tables. With decoys=False only tie-free tables are in the domain (retained decoys unobservable).",
         "DESIGN.md §3 C03"),
 "C19": ("model_checking",
         "TLC model checking of PinTsv.tla (line conversion with Python slice semantics, validity test, second pass vs declarative clauses) + TLC trace validation (PinTsvTrace.tla) of conversions recorded from the real pin_to_valid_tsv / is_valid_tsv / CLI verify step on every TLC-enumerated text",
         "Every small PIN text (features, protein-column position, DefaultDirection kinds, trailing newline, protein counts) is model-checked and then converted by the real code; TLC recomputes the expected conversion from the recorded input and compares field by field, incl. validity flags and idempotence.",
         "Trusted: TLC, driver's text rendering/splitting. Domain per statement: >= 1 PSM line, no empty field at a line end.",
         "DESIGN.md §3 C19"),
 "C20": ("model_checking",
         "TLC model checking of PepXml.tla (nested run/spectrum/hit iteration, modification insertion with running offset, label rule vs declarative row list) + TLC trace validation (PepXmlTrace.tla) of rows recorded from the real read_pepxml on every TLC-enumerated document",
         "Every small PepXML document structure is model-checked and rendered to real XML; the rows returned by read_pepxml(to_df=True) are accepted by TLC iff they equal the declarative row list (one PSM per hit in order, spectrum attributes, file name, modified peptide, proteins, label, scores); error paths must raise.",
         "Trusted: TLC, the driver's XML rendering, values chosen outside the log-transform heuristics. Files without any search hit are outside the quantifier.",
         "DESIGN.md §3 C20"),
}
PENDING = {}   # id -> reason (not_applicable)

def main():
    props = [json.loads(l) for l in open(os.path.join(HERE, "properties.jsonl"))]
    checks, na = [], []
    for p in props:
        i = p["id"]
        if i in CHECKS:
            lvl, tech, text, note, ref = CHECKS[i]
            checks.append({
                "property_id": i,
                "quick_cmd": "./check %s --tier quick" % i,
                "thorough_cmd": "./check %s --tier thorough" % i,
                "evidence_file": "/verif/evidence/%s.json" % i,
                "replay_cmd_template": "./check %s --replay {path}" % i,
                "engine": "tlc-trace",
                "level_claimed": {"category": lvl, "text": text, "design_ref": ref},
                "level_note": note,
                "technique": tech,
            })
        else:
            na.append({"property_id": i, "reason": PENDING.get(i, "check not built yet (work in progress; see DESIGN.md §3 for the planned TLA+ model and trace binding)")})
    m = {
        "version": 1,
        "setup_cmd": "./setup.sh",
        "hooks": {
            "guard": "MOKAPOT_VERIF",
            "enable": "the ./check wrapper exports MOKAPOT_VERIF=1; /repo is imported in place (editable install), nothing is built",
            "baseline_off_cmd": "cd /repo && env -u MOKAPOT_VERIF /venv/bin/python -m pytest -ra -q -p no:cacheprovider --timeout=900 --continue-on-collection-errors",
            "source_commits": [],
            "add_only": True,
        },
        "engines": [{
            "name": "tlc-trace", "path": "/verif/engine",
            "serves_properties": [c["property_id"] for c in checks],
            "kind_free_text": "explicit TLA+ specifications in /verif/spec checked with TLC (model checking of implementation-shaped modules against declarative layers; behaviour generation; batch trace validation of events recorded from the real code by the drivers in /verif/drivers)",
        }],
        "checks": checks,
        "notes": "Verdicts come from TLC evaluating the TLA+ acceptors on events recorded from /repo's working tree. exit 2 = machinery failure (never a violation). known_findings.json lists genuine defects (open = recorded, fixed = repaired by a fix: commit).",
        "not_applicable": na,
    }
    json.dump(m, open(os.path.join(HERE, "MANIFEST.json"), "w"), indent=1)
    print("MANIFEST.json: %d checks, %d not_applicable" % (len(checks), len(na)))

if __name__ == "__main__":
    main()
