#!/usr/bin/env python3
"""Regenerates /verif/MANIFEST.json from the table below (single source of truth for the interface)."""
import json, os
HERE = os.path.dirname(os.path.dirname(os.path.abspath(__file__)))

# id -> (level, technique, level text, level note, design_ref)
CHECKS = {
 "C01": ("model_checking",
         "TLC model checking of Tdc.tla (scan of qvalues.py = declarative QDef, all weak orders x labellings) + TLC trace validation (TdcTrace.tla) of calls recorded from the real tdc/_update_labels on every TLC-enumerated input",
         "The implementation-shaped model of the sort/cumulate/tie-group/running-minimum scan is proved equal to the defining formula for every weak order and labelling up to N=5 (all argsort tie orders; N=6, sampled N=7 in thorough); every one of those inputs, in both directions and under rotating dtypes/label encodings/rescalings/permutations/APIs, is then executed on the real code and the recorded q-values (exact rationals) and labels are accepted or rejected by TLC against the same definition.",
         "Trusted: TLC, the JSON trace encoding, rational reconstruction of float32 q-values (denominator <= n, 2e-6 relative). Small-scope hypothesis for n > 6 is covered only by random vectors (n <= 400).",
         "DESIGN.md §3 C01"),
 "C03": ("model_checking",
         "TLC model checking of Confidence.tla (chunk/sort/de-dup/temp files/glob/k-way merge/seen sets vs ConfDef) + TLC trace validation (ConfTrace.tla) of result files written by the real assign_confidence and brew_rollup on every TLC-enumerated canonical table",
         "The implementation-shaped pipeline model is checked against the declarative retained-set predicates for every canonical table within the bounds, every chunk size, flag combination, tie order and merge-list order; TLC then enumerates every canonical table (ConfGen.tla), the driver runs the real assign_confidence (rotating labels, flags, chunk sizes, formats, workers; several collections with/without prefixes; larger random tables with heavy ties) and brew_rollup on its result files, and TLC accepts each recorded set of result files iff it satisfies the same predicates, rows are intact, the target/decoy split is right and q-values equal the C01 formula over exactly the retained rows.",
         "Trusted: TLC, the independent result-file reader of the driver, dyadic scores (exact text round trip), stub PEP algorithm on tiny tables. With decoys=False only tie-free tables are in the domain (retained decoys unobservable).",
         "DESIGN.md §3 C03"),
 "C19": ("model_checking",
         "TLC model checking of PinTsv.tla (line conversion with Python slice semantics, validity test, second pass vs declarative clauses) + TLC trace validation (PinTsvTrace.tla) of conversions recorded from the real pin_to_valid_tsv / is_valid_tsv / CLI verify step on every TLC-enumerated text",
         "Every small PIN text (features, protein-column position, DefaultDirection kinds, trailing newline, protein counts) is model-checked and then converted by the real code; TLC recomputes the expected conversion from the recorded input and compares field by field, incl. validity flags and idempotence.",
         "Trusted: TLC, driver's text rendering/splitting. Domain per statement: >= 1 PSM line, no empty field at a line end.",
         "DESIGN.md §3 C19"),
 "C20": ("model_checking",
         "TLC model checking of PepXml.tla (nested run/spectrum/hit iteration, modification insertion with running offset, label rule vs declarative row list) + TLC trace validation (PepXmlTrace.tla) of rows recorded from the real read_pepxml on every TLC-enumerated document",
         "Every small PepXML document structure is model-checked and rendered to real XML; the rows returned by read_pepxml(to_df=True) are accepted by TLC iff they equal the declarative row list (one PSM per hit in order, spectrum attributes, file name, modified peptide, proteins, label, scores); error paths must raise.",
         "Trusted: TLC, the driver's XML rendering, values chosen outside the log-transform heuristics. Files without any search hit are outside the quantifier.",
         "DESIGN.md §3 C20"),
 "C02": ("model_checking",
         "TLC model checking of Brew.tla (split/train sets/cap/thread pools/sort by fold/routing/chunked predict vs partition, spectrum closure, no leak) + TLC trace validation (BrewTrace.tla) of fit/predict events recorded from the real brew() on every TLC-enumerated dataset shape",
         "The implementation-shaped model of brew() is checked for every dataset shape within the bounds, every hash order, cap subset, chunk size and completion order of the thread pools; TLC then enumerates every shape inside the fold construction's domain for folds 2..4 (thorough 2..6), the driver runs the real brew() with a recording Model subclass (key width 1..4, 1-2 files, cap, workers 1..4 with enforced completion orders, chunk sizes, formats, seeds, recording/memorising/real learners) and TLC accepts the recorded fit/predict events iff the finally scored sets form a spectrum-closed partition into exactly `folds` parts and no model's training rows share a spectrum with the rows it scores (subset of the complement under a cap, equal to it otherwise).",
         "Trusted: TLC, the recording Model subclass (public Model API; deepcopy keeps it), interposition on brew._create_psms to see training sets the constructor rejects. Domain boundary B-02 (no spectrum larger than rows div folds). Runs that return the untrained fallback are C07's business.",
         "DESIGN.md §3 C02"),
 "C11": ("model_checking",
         "TLC model checking of Calib.tla (labels, lowest accepted target, decoy median, affine map vs order preservation/anchors/error rule) + TLC trace validation of direct calibrate_scores calls (CalibTrace.tla) on every TLC-enumerated vector and of brew() runs (BrewTrace.tla clauses Calibrated/CalibError)",
         "Every small (raw vector, labelling, threshold) is model-checked and executed on the real calibration functions; dataset-level runs through brew() (folds 2..6, five thresholds, estimators with and without a decision function) are validated per fold: the returned score of every row equals (raw - t)/(t - d) exactly, with t, d recomputed by TLC from the recorded raw outputs, and a fold without an accepted target must stop the run with RuntimeError.",
         "Trusted: TLC, integer raw scores from the recording estimator (exact rationals). Folds with t <= d or without decoys are outside the stated domain and skipped.",
         "DESIGN.md §3 C11"),
 "C13": ("model_checking",
         "TLC model checking of TabularRead.tla / TabularWrite.tla (chunk iterators, Parquet index arithmetic, BufferedWriter flush loop, finalize) + TLC trace validation (TabularTrace.tla) of chunks / inner writes / read-backs recorded from the real readers and writers on TLC-generated configurations and behaviours",
         "Reader configurations (rows, chunk, row group, reader kind, column subset/order) and writer behaviours (append sequences, buffer size/kind) are generated by TLC, executed on the real classes (CSV, Parquet, frame, renamed, joined, computed; CSV/Parquet/buffered writers with a recording inner writer) and accepted by TLC iff chunks concatenate to the whole with continuing index and requested column order, resp. the read-back equals the appended rows.",
         "Trusted: TLC, pyarrow full-batch behaviour (ASSUME, tested with every row-group size), value comparison after the declared dtype. Known finding F-13a (joined reader with an empty sub-request).",
         "DESIGN.md §3 C13"),
 "C14": ("model_checking",
         "TLC model checking of Merge.tla (both merge implementations, sortedness guard, asc/desc) + TLC trace validation (MergeTrace.tla) of outputs recorded from merge_sort / MergedTabularDataReader / merge_readers on every TLC-enumerated input family",
         "All input families (1..3 inputs x 1..3 rows x ranks 1..3 with ties, sorted and unsorted; thorough 4 inputs) are model-checked and merged by the real code (text and Parquet, chunk sizes 1..N+1); TLC accepts iff every row appears exactly once, unmodified, globally sorted, and unsorted input to the table merger raises.",
         "Trusted: TLC, dyadic scores. merge_sort is driven with descending-sorted inputs only (it has no guard and no ascending mode).",
         "DESIGN.md §3 C14"),
 "C16": ("model_checking",
         "TLC model checking of ProteinGroups.tla (largest-first grouping with in-place renaming, unique/shared split, decoy pairing, all visiting and hash iteration orders vs declarative clauses and EqualsCanonical) + TLC trace validation (ProteinGroupsTrace.tla) of the maps returned by the real read_fasta for every TLC-enumerated incidence structure",
         "Every protein x peptide incidence (3x3 quick, 4x4 thorough) is model-checked, rendered as FASTA (entry orders, decoy styles, digest parameters, hash seeds in sub-processes) and the maps returned by read_fasta are accepted by TLC iff they satisfy the statement's clauses and agree across runs.",
         "Trusted: TLC, the FASTA rendering (digest behaviour is C17's). FASTA without any target peptide is out of domain.",
         "DESIGN.md §3 C16"),
 "C17": ("model_checking",
         "TLC model checking of Digest.tla (site list with duplicates, double loop, clip, semi vs declarative set comprehension; monotonicity) + TLC trace validation (DigestTrace.tla) of mokapot.digest on every TLC-enumerated (sequence, enzyme) x parameter grid",
         "All sequences up to length 5 (7 thorough) over a 4-letter alphabet x 5 enzymes (incl. look-ahead/look-behind) are model-checked and digested by the real code under a 128-setting parameter grid; TLC recomputes the declarative digest for each recorded call and compares peptide sets, substring property and monotonicity pairs.",
         "Trusted: TLC, enzyme regex <-> residue predicate mapping. Domain: min_length >= 1, max_length >= min_length.",
         "DESIGN.md §3 C17"),
 "C18": ("model_checking",
         "TLC model checking of Decoys.tla (peptide-interior permutation/reversal, file layer with wrapping and re-read vs ValidDecoy/ValidFile) + TLC trace validation (DecoysTrace.tla) of files written by the real make_decoys for every TLC-enumerated FASTA input",
         "All small FASTA inputs (sequences up to length 5, 7 thorough; shuffle/reverse, concat on/off, enzymes) are model-checked and run through the real make_decoys with several RNG states; the written file, parsed by an independent reader, is accepted by TLC iff every decoy is a valid decoy of its target (relation, not function), targets precede decoys unchanged, and re-reading recovers names and sequences.",
         "Trusted: TLC, the driver's independent FASTA reader. Well-formed FASTA only.",
         "DESIGN.md §3 C18"),
 "C05": ("model_checking",
         "TLC model checking of Brew.tla / Confidence.tla with the configuration as free choices (invariant OutcomeIsF) and ThreadPool.tla (feasible completion orders, termination) + TLC trace validation (RunsTrace.tla) of groups of real runs of one input under many configurations",
         "The models show that the outcome is a function of the input only, for every chunk size, worker count, completion order, tie order and merge-list order within the bounds. For random inputs the real brew / assign_confidence / read_pin are run under a reference configuration and under every prediction / confidence chunk size 1..n+1, rotating training-read / merge-sort / column- and row-scan chunk sizes, workers 1..4 with every pool-feasible completion order of the fold fits (generated by TLC, enforced through the recording Model subclass), text vs Parquet with row groups 1..n+5; TLC accepts a group iff every run fails exactly when the reference does and all outcomes are equal (scores exactly as rationals, real-learner scores within 2e-6, result files as row sets).",
         "Trusted: TLC, schedule enforcement by condition variable (infeasible orders time out harmlessly), tie-free-in-group confidence inputs, pyarrow full-batch behaviour.",
         "DESIGN.md §3 C05"),
 "C07": ("model_checking",
         "TLC model checking of BrewDecide.tla (feature count / prediction count in the file's label encoding / decision vs SafetyNet) + TLC trace validation of brew() return values (DecideTrace.tla) and of assign_confidence(descs=[False]) result files (ConfTrace.tla on direction-normalised ranks)",
         "The decision logic is model-checked for every small (labels, feature ranks, learned ranks, trained?, encoding, direction, threshold). The real brew() is run on random datasets x estimators that learn / cannot learn / anti-learn x label encodings x best-feature direction x format x override; TLC recomputes from the returned scores and direction how many genuine targets are accepted (C01 formula per collection) and accepts iff that is at least the best feature's count or the returned scores are exactly that feature's values with its direction. The direction part runs every canonical table of ConfGen.tla through assign_confidence(descs=[False]).",
         "Trusted: TLC; feat_total is what the returned fold models report. An explicit calibration RuntimeError is not a silent degradation. Known finding F-07b (assign_confidence ignores desc=False).",
         "DESIGN.md §3 C07"),
 "C09": ("fault_enumeration",
         "TLC model checking of Workdir.tla (run sequences over one directory, Fail/Kill at every step) + enumeration of every intercepted I/O call of real earlier runs as a fault point + TLC trace validation (WorkdirTrace.tla) of the observed run in the dirty directory against the same run in a clean directory",
         "The file-system model is checked for all histories of up to 3 runs with every crash step and both crash kinds. TLC emits the history skeletons; for two-run histories the driver makes EVERY intercepted write/append/unlink call of the real earlier run a fault point (Fail = the call raises, Kill = a forked child exits there), adds completed different runs and sampled three-run histories, and the CLI verify step with stale '<pin>.tsv' files; TLC accepts iff the observed run succeeds with the same result files as in a clean directory, leaves no intermediate file of its own, and the input file ends up as in the clean run.",
         "Trusted: TLC, the interposition layer (to_csv / to_parquet / ParquetWriter / write_table / os.unlink / Path.unlink), fork for Kill. The CLI is stopped after its verify step by a read_pin stub.",
         "DESIGN.md §3 C09"),
 "C08": ("exploration",
         "TLC model checking of Determinism.tla (run histories with every nondeterminism source as a free choice; with Brew.tla / ProteinGroups.tla for the mechanisms) + TLC trace validation (RunsTrace.tla) of digests recorded from real analysis sessions of one (dataset, seed): in-process repeats, fresh interpreters with other PYTHONHASHSEED values, worker counts, every order of re-fed models",
         "Histories are explored, not exhausted: for each (dataset, seed) the full analysis (brew with a LinearSVC model, assign_confidence with qvality PEPs, optionally protein level from a generated FASTA) is executed twice in one process, in fresh interpreters with different hash seeds and worker counts, and with the returned fold models fed back in every order (quick: 3 orders); TLC accepts a group iff all sessions have identical sha256 digests of score bytes, coefficients, fold membership, every result file and the FASTA maps (as sets), and re-feeding reproduces the first run's scores bit for bit.",
         "Trusted: TLC, sha256 digests computed by the worker. Domain: FASTA with decoys.",
         "DESIGN.md §3 C08"),
 "C04": ("other",
         "TLC model checking of the finite-sample FDR-control theorem (FdrControl.tla) + TLC trace validation of its premises on the real code (FlipTrace.tla label-flip pairs; C01/C02/C03 acceptors) + TLC-decided bound (FdrTrace.tla) on FDP counts from simulated data run through the real brew + assign_confidence",
         "An expectation over a distribution cannot be model-checked. Exact part: for every weak order of n <= 5 (6 thorough) PSMs, every set of correct targets and alpha in {1/2..1/10}, the FDP averaged over all labellings of the null PSMs is <= alpha with the +1 and TLC finds the counterexample without it. Binding: held-out outputs of the real brew() do not change when the label of a held-out PSM is flipped, for a memorising estimator (FlipTrace), plus the C01/C02/C03 checks. Exploration: replicates of simulated mixtures (n = 1500-2500, pi0 0.5/0.8, folds 2..5, learners memoriser / fully grown tree / SVM / logistic regression) at PSM and peptide level; TLC rejects only mean FDP > 1.5 alpha + 4 SE and the same exploration with deliberately leaky training sets must be rejected (else machinery failure).",
         "Trusted: TLC, simulated ground truth, integer per-mille arithmetic; the expectation is explored, not proved, for the real code.",
         "DESIGN.md §3 C04"),
 "C10": ("model_checking",
         "TLC model checking of PinParse.tla (column classification, identifier-preserving column chunking, NaN scan tasks in a thread pool, label conversion vs the declarative dataset) + TLC trace validation (PinParseTrace.tla) of datasets returned by the real read_pin on every TLC-enumerated schema",
         "The parser model is checked for features 0..45 (60 thorough) x identifier widths 2..5 x column chunk sizes x workers and every task interleaving on small instances, with the pre-fix chunking (AsIs_Remainder1Only) and four seeded faults rejected; TLC enumerates the schemas (feature count, optional columns, orders, casings, label encodings, NaN placement, chunk sizes), the driver renders text and Parquet files and the dataset returned by read_pin is accepted by TLC iff it equals the declarative result (features, spectrum key, rows in order, targets, errors).",
         "Trusted: TLC, file rendering. A column literally named 'charge' may be feature or metadata; DefaultDirection / ragged protein lists are C19's domain.",
         "DESIGN.md §3 C10"),
 "C15": ("model_checking",
         "TLC model checking of Picked.tla (strip -> map -> pair -> best peptide per pair vs one entry per pair with a unique peptide) + TLC trace validation (PickedTrace.tla) of rows returned by the real picked_protein and written by assign_confidence(proteins=...) for every TLC-enumerated structure",
         "Every small structure (<= 3 target/decoy pairs of proteins or groups, <= 4 peptides, unique/shared, ranks with ties; thorough <= 4 pairs, 5 rows) is model-checked, rendered as FASTA + peptide table under several modification / flank notations, and run through picked_protein directly and through assign_confidence end to end; TLC accepts iff there is exactly one entry per pair with a retained unique peptide, won by the owner of a best unique peptide, shared peptides never contribute, and q-values equal the C01 formula over the entries.",
         "Trusted: TLC, FASTA rendering of C16. Known findings F-15b (pair key from the first member name), F-15c (target-only FASTA), F-15d (empty protein level end to end).",
         "DESIGN.md §3 C15"),
 "C06": ("exploration",
         "TLC model checking of the contract's own logic (PepContract.tla: a sorted-order return violates it unless the input is sorted; fast = pairwise definitions) + TLC trace validation (PepContractTrace.tla) of estimates recorded from the real peps_from_scores / qvalues_from_scores (on an input and on a permutation of it) and of the PEP column of result files",
         "The numeric estimators (KDE, NNLS, qvality spline) are not transcribed into TLA+: only their contract is specified. TLC enumerates the case shapes (algorithm x mixture class x tie class x permutation class x size class); inside each shape seeded numpy vectors (>= 50 targets and decoys, 100..1000 PSMs, 5000 thorough) are run through every selectable PEP and q-value algorithm, on the input and on its permuted version; TLC accepts iff one finite value per PSM in range, monotone in score, tie-equal, and aligned with its PSM whatever the input order; the PEP column of result files written by assign_confidence (qvality, kde_nnls) must be non-decreasing down the file and tie-equal.",
         "Trusted: TLC, quantisation at 1e-9; alignment tolerates up to 1 % of positions differing by more than 1e-3 (numeric noise of ill-conditioned NNLS tails is not a mis-alignment). Known findings F-06c/d/e (from_counts, estimate_pi0_by_slope).",
         "DESIGN.md §3 C06"),
 "C12": ("model_checking",
         "TLC model checking of ModelFit.tla (shuffle / un-shuffle index bookkeeping, label update by the C01 formula, iterations vs rows-and-labels-of-the-same-PSM and permutation/shuffle invariance) + TLC trace validation (ModelFitTrace.tla) of what a recording estimator received in the real Model.fit / predict for every TLC-enumerated small dataset",
         "The training loop is model-checked for every small dataset, row permutation, shuffle switch and 1..3 iterations (the pre-fix unconditional un-shuffle and three seeded faults are rejected). TLC enumerates datasets (features, labels, permutation chosen by TLC and injected through a Generator subclass, shuffle, iterations), the driver runs the real Model.fit with a deterministic recording estimator and records every (row id, label) pair fed per iteration and the predictions for the original order, a row permutation, shuffle on/off, permuted feature columns and a save/load round trip; TLC recomputes the labels from the recorded scores with the C01 formula and accepts iff every fed pair belongs to one PSM with the right label, no unlabeled row is fed, and all variants predict alike.",
         "Trusted: TLC, the recording estimator (public estimator API), integer scores. Real learners are compared at 1e-4.",
         "DESIGN.md §3 C12"),
}
PENDING = {}   # id -> reason (not_applicable)

# round 8: additions to the technique text (appended)
CLI = " + CliFlow.tla (command-line dataflow state machine, model-checked with 10 seeded plumbing slips rejected): TLC-generated option vectors replayed into the real mokapot.mokapot.main() with recording stand-ins for the stages, judged by CliFlowTrace.tla (the P: clauses of this property; other clauses are DRIFT)"
LIVE = " + liveness of the implementation-shaped module(s) (PROPERTY Halts of FairSpec = Spec /\\ WF_vars(Next), <Module>_live.cfg)"
ROLL = " + RollupTool.tla (the stand-alone rollup tool over histories of put / drop / roll operations in one directory, step by step: glob, own-root filter, levels, merge with per-level seen-sets, write; six seeded slips and the pinned tree's untranslated base-level word rejected by TLC): TLC-generated histories replayed into a real directory with the real mokapot.brew_rollup, every roll judged by RollupToolTrace.tla (relation RollOK of the model; the clauses owned by this property)"
EXTRA = {"C02": CLI + LIVE, "C03": CLI + ROLL + LIVE, "C07": CLI + LIVE, "C08": CLI,
         "C12": " + ModelLife.tla (life cycle of a Model object: every fit / predict / save / load_model sequence, three seeded slips rejected): TLC-generated behaviours replayed into a real mokapot.Model, answers judged by ModelLifeTrace.tla" + LIVE}
for _i in ("C01", "C09", "C10", "C11", "C13", "C14", "C15", "C16", "C17", "C18", "C19", "C20"):
    EXTRA[_i] = LIVE
EXTRA["C09"] = ROLL + LIVE

def main():
    props = [json.loads(l) for l in open(os.path.join(HERE, "properties.jsonl"))]
    checks, na = [], []
    for p in props:
        i = p["id"]
        if i in CHECKS:
            lvl, tech, text, note, ref = CHECKS[i]
            tech = tech + EXTRA.get(i, "")
            checks.append({
                "property_id": i,
                "quick_cmd": "./check %s --tier quick" % i,
                "thorough_cmd": "./check %s --tier thorough" % i,
                "evidence_file": "/verif/evidence/%s.json" % i,
                "replay_cmd_template": "./check %s --replay {path}" % i,
                "engine": "tlc-trace",
                "level_claimed": {"category": lvl, "text": text, "design_ref": ref},
                "level_note": note,
                "technique": tech,
            })
        else:
            na.append({"property_id": i, "reason": PENDING.get(i, "check not built yet (work in progress; see DESIGN.md §3 for the planned TLA+ model and trace binding)")})
    m = {
        "version": 1,
        "setup_cmd": "./setup.sh",
        "hooks": {
            "guard": "MOKAPOT_VERIF",
            "enable": "the ./check wrapper exports MOKAPOT_VERIF=1; /repo is imported in place (editable install), nothing is built",
            "baseline_off_cmd": "cd /repo && env -u MOKAPOT_VERIF /venv/bin/python -m pytest -ra -q -p no:cacheprovider --timeout=900 --continue-on-collection-errors",
            "source_commits": ["f5054cc", "936d6bb"],
            "add_only": True,
        },
        "engines": [{
            "name": "tlc-trace", "path": "/verif/engine",
            "serves_properties": [c["property_id"] for c in checks],
            "kind_free_text": "explicit TLA+ specifications in /verif/spec checked with TLC (model checking of implementation-shaped modules against declarative layers; behaviour generation; batch trace validation of events recorded from the real code by the drivers in /verif/drivers)",
        }],
        "checks": checks,
        "notes": "Verdicts come from TLC evaluating the TLA+ acceptors on events recorded from /repo's working tree. exit 2 = machinery failure (never a violation). known_findings.json lists genuine defects (open = recorded, fixed = repaired by a fix: commit).",
        "not_applicable": na,
    }
    json.dump(m, open(os.path.join(HERE, "MANIFEST.json"), "w"), indent=1)
    print("MANIFEST.json: %d checks, %d not_applicable" % (len(checks), len(na)))

if __name__ == "__main__":
    main()
