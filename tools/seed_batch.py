#!/usr/bin/env python3
"""usage: seed_batch.py <id>:<checks>[:<outdir>:<variant>] ...   (3 in parallel)
e.g.  C14b:C14   C05a:C05,C13   C02c:C02:/tmp/seed/out2/C02:a
results under /verif/seeded/<id>/, logs /tmp/seedtest_<id>.log"""
import subprocess, sys, os
from concurrent.futures import ThreadPoolExecutor
V = os.path.dirname(os.path.dirname(os.path.abspath(__file__)))
def one(spec):
    parts = spec.split(":")
    sid, checks = parts[0], parts[1]
    d = parts[2] if len(parts) > 2 else "/tmp/seed/out/" + sid[:-1]
    v = parts[3] if len(parts) > 3 else sid[-1]
    cmd = ["python3", os.path.join(V, "tools/seed_test.py"), sid, "%s/patch_%s.diff" % (d, v), "%s/demo_%s.py" % (d, v), "%s/meta_%s.json" % (d, v), checks]
    with open("/tmp/seedtest_%s.log" % sid, "w") as fh:
        subprocess.run(cmd, cwd=V, stdout=fh, stderr=subprocess.STDOUT)
    print("done", sid, flush=True)
with ThreadPoolExecutor(max_workers=int(os.environ.get("SEED_PAR", "3"))) as ex:
    list(ex.map(one, sys.argv[1:]))
