#!/usr/bin/env python3
"""FALSE-ALARM round: run checks against a property-PRESERVING change in a scratch worktree of /repo (never in /repo itself).

usage: benign_test.py <id> <patch.diff> <sanity.py> <meta.json> <check ids, comma separated> [--tier quick] [--skip-suite]

 1. worktree of /repo's HEAD under /tmp/benigntest/<id>, patch applied
 2. the sanity script must exit 0 on the changed tree; the pinned suite's stable tests must still pass
 3. every named check is run with VERIF_REPO=<worktree>: SILENT = exit 0 and no VIOLATION line; anything else is an alarm to be
    judged by hand (false alarm of the machinery, or the change is not property-preserving after all)
 4. the worktree is removed
Stored under /verif/benign/<id>/ (patch.diff, sanity.py, meta.json with the outcome)."""
import json
import os
import shutil
import sys

sys.path.insert(0, os.path.dirname(os.path.abspath(__file__)))
from seed_test import sh, suite_ok, VERIF  # noqa


def main():
    sid, patch, sanity, meta, checks = sys.argv[1:6]
    tier = sys.argv[sys.argv.index("--tier") + 1] if "--tier" in sys.argv else "quick"
    wt = "/tmp/benigntest/" + sid
    os.makedirs("/tmp/benigntest", exist_ok=True)
    sh("git -C /repo worktree remove --force %s" % wt)
    shutil.rmtree(wt, ignore_errors=True)
    sh("git -C /repo worktree add -q --detach %s HEAD" % wt)
    res = {"id": sid, "checks": {}, "applies": False}
    try:
        rc, out = sh("git apply --whitespace=nowarn %s" % os.path.abspath(patch), cwd=wt)
        if rc != 0:
            rc, out = sh("git apply --3way --whitespace=nowarn %s" % os.path.abspath(patch), cwd=wt)
        if rc != 0:
            res["error"] = "patch does not apply: " + out[-300:]
            return res
        res["applies"] = True
        env = dict(os.environ, PYTHONPATH=wt)
        rc_s, out_s = sh("/venv/bin/python -W ignore %s" % os.path.abspath(sanity), cwd=wt, env=env, timeout=1800)
        res["sanity_exit"] = rc_s
        if rc_s != 0:
            res["sanity_tail"] = out_s[-400:]
        if "--skip-suite" in sys.argv:
            res["suite_ok"] = None
        else:
            ok, npass, missing = suite_ok(wt)
            res["suite_ok"], res["suite_passed"], res["suite_missing"] = ok, npass, missing
        for c in [c for c in checks.split(",") if c]:
            envc = dict(os.environ, VERIF_REPO=wt)
            rc, out = sh("./check %s --tier %s" % (c, tier), cwd=VERIF, env=envc, timeout=7200)
            lines = [l for l in out.splitlines() if l.startswith(("VIOLATION", "  failed clauses", "KNOWN-FINDING", "MACHINERY", c + " "))]
            res["checks"][c] = {"exit": rc, "silent": rc == 0 and not any(l.startswith("VIOLATION") for l in lines), "lines": lines[:8]}
            if rc != 0:
                res["checks"][c]["tail"] = out[-1500:]
        return res
    finally:
        sh("git -C /repo worktree remove --force %s" % wt)
        shutil.rmtree(wt, ignore_errors=True)
        shutil.rmtree(os.path.join("/tmp/verif_scratch", wt.strip("/").replace("/", "_")), ignore_errors=True)
        d = os.path.join(VERIF, "benign", sid)
        os.makedirs(d, exist_ok=True)
        shutil.copy(patch, os.path.join(d, "patch.diff"))
        shutil.copy(sanity, os.path.join(d, "sanity.py"))
        m = json.load(open(meta)) if os.path.exists(meta) else {}
        m["verification"] = res
        json.dump(m, open(os.path.join(d, "meta.json"), "w"), indent=1)
        print(json.dumps(res, indent=1)[:3000])


if __name__ == "__main__":
    main()
