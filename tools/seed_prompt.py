#!/usr/bin/env python3
"""Write the prompt for a seeding sub-agent: only the property text, its scratch worktree and the summaries of the changes
already stored for that property (so that the new ones use other mechanisms).  Nothing from /verif is shown to the agent.
usage: seed_prompt.py <outroot> <Cxx> [<Cxx> ...]   -> <outroot>/<Cxx>/prompt.txt (worktrees /tmp/seed/<Cxx> refreshed at /repo HEAD)"""
import glob, json, os, subprocess, sys
V = os.path.dirname(os.path.dirname(os.path.abspath(__file__)))
props = {json.loads(l)["id"]: json.loads(l) for l in open(os.path.join(V, "properties.jsonl"))}
TEMPLATE = open(os.path.join(V, "tools", "seed_prompt_template.txt")).read()
outroot = sys.argv[1]
for pid in sys.argv[2:]:
    p = props[pid]
    wt = "/tmp/seed/" + pid
    subprocess.run("git -C /repo worktree remove --force %s; rm -rf %s; git -C /repo worktree add -q --detach %s HEAD" % (wt, wt, wt), shell=True,
                   stdout=subprocess.DEVNULL, stderr=subprocess.DEVNULL)
    out = os.path.join(outroot, pid)
    os.makedirs(out, exist_ok=True)
    for f in glob.glob(out + "/*"):
        os.remove(f)
    earlier = []
    for d in sorted(glob.glob(os.path.join(V, "seeded", pid + "?"))):
        try:
            earlier.append("- " + json.load(open(d + "/meta.json"))["summary"])
        except Exception:
            pass
    anchors = p["anchors"]
    text = TEMPLATE.format(
        WT=wt, OUT=out, PID=pid, TITLE=p["title"], STATEMENT=p["statement"], QUANT=p["quantifier"]["text"], WHY=p["why_tests_cant"],
        WHERE="; ".join("%s (%s)" % (m["name"], m["where"]) for m in anchors["mechanism"]), OBS=", ".join(anchors["observe_at"]),
        EARLIER="\n".join(earlier) if earlier else "(none)")
    open(os.path.join(out, "prompt.txt"), "w").write(text)
    print(pid, len(earlier), "earlier variants")
