#!/usr/bin/env python3
"""Regenerate DESIGN.md section 10.6 (everything from its heading to the end of the file): intro (tools/design_10_6_intro.md),
the tables of tools/report.py (evidence/*.json, seeded/*/meta.json) and tools/strengthening.md."""
import os, subprocess
V = os.path.dirname(os.path.dirname(os.path.abspath(__file__)))
p = os.path.join(V, "DESIGN.md")
s = open(p).read()
i = s.index("### 10.6 Measured coverage and seeded changes")
tables = subprocess.run(["python3", os.path.join(V, "tools", "report.py")], stdout=subprocess.PIPE, text=True, check=True).stdout
out = s[:i] + open(os.path.join(V, "tools", "design_10_6_intro.md")).read() + tables + "\n" + open(os.path.join(V, "tools", "strengthening.md")).read()
open(p, "w").write(out)
print("DESIGN.md section 10.6 regenerated")
