#!/usr/bin/env python3
"""Confirm a seeded change and run checks against it, in a scratch worktree of /repo (never in /repo itself).

usage: seed_test.py <seed-id> <patch.diff> <demo.py> <meta.json> <check ids, comma separated> [--tier quick]

 1. worktree of /repo's HEAD under /tmp/seedtest/<seed-id>, patch applied (git apply, falling back to --3way)
 2. the demonstration must exit non-zero on the changed tree and 0 on the clean tree
 3. the pinned test suite must pass exactly as before (stable_pass of BASELINE.json all still passing)
 4. every named check is run with VERIF_REPO=<worktree>; caught = exit status 1 with a VIOLATION line
 5. the worktree is removed
The files and the outcome are stored under /verif/seeded/<seed-id>/ (patch.diff, demo.py, meta.json)."""
import json
import os
import shutil
import subprocess
import sys
import xml.etree.ElementTree as ET

VERIF = os.path.dirname(os.path.dirname(os.path.abspath(__file__)))


def sh(cmd, cwd=None, env=None, timeout=3600):
    p = subprocess.run(cmd, shell=True, cwd=cwd, env=env, stdout=subprocess.PIPE, stderr=subprocess.STDOUT, text=True, timeout=timeout)
    return p.returncode, p.stdout


def suite_ok(wt):
    base = json.load(open("/root/.vp/BASELINE.json"))
    x = os.path.join(wt, ".junit.xml")
    env = dict(os.environ)
    env.pop("MOKAPOT_VERIF", None)
    sh("/venv/bin/python -m pytest -q -p no:cacheprovider --timeout=900 --continue-on-collection-errors --junitxml=%s" % x, cwd=wt, env=env)
    passed = set()
    for tc in ET.parse(x).getroot().iter("testcase"):
        if not any(c.tag in ("failure", "error", "skipped") for c in tc):
            passed.add(tc.get("classname") + "::" + tc.get("name"))
    os.remove(x)
    missing = sorted(set(base["stable_pass"]) - passed)
    return (not missing), len(passed), missing


def main():
    sid, patch, demo, meta, checks = sys.argv[1:6]
    tier = sys.argv[sys.argv.index("--tier") + 1] if "--tier" in sys.argv else "quick"
    skip_suite = "--skip-suite" in sys.argv
    wt = "/tmp/seedtest/" + sid
    os.makedirs("/tmp/seedtest", exist_ok=True)
    sh("git -C /repo worktree remove --force %s" % wt)
    shutil.rmtree(wt, ignore_errors=True)
    rc, out = sh("git -C /repo worktree add -q %s HEAD" % wt)
    res = {"seed": sid, "checks": {}, "confirmed": False}
    try:
        rc, out = sh("git apply --whitespace=nowarn %s" % os.path.abspath(patch), cwd=wt)
        if rc != 0:
            rc, out = sh("git apply --3way --whitespace=nowarn %s" % os.path.abspath(patch), cwd=wt)
        if rc != 0:
            res["error"] = "patch does not apply: " + out[-300:]
            return res
        env = dict(os.environ, PYTHONPATH=wt)
        rc_changed, out_changed = sh("/venv/bin/python -W ignore %s" % os.path.abspath(demo), cwd=wt, env=env, timeout=1800)
        res["demo_exit_changed"] = rc_changed
        res["demo_tail_changed"] = out_changed[-400:]
        if skip_suite:
            ok, npass, missing = True, -1, []
        else:
            ok, npass, missing = suite_ok(wt)
        res["suite_ok"], res["suite_passed"], res["suite_missing"] = ok, npass, missing
        for c in [c for c in checks.split(",") if c]:
            envc = dict(os.environ, VERIF_REPO=wt)
            rc, out = sh("./check %s --tier %s" % (c, tier), cwd=VERIF, env=envc, timeout=7200)
            lines = [l for l in out.splitlines() if l.startswith(("VIOLATION", "  failed clauses", "KNOWN-FINDING", "MACHINERY", c + " "))]
            res["checks"][c] = {"exit": rc, "caught": rc == 1 and any(l.startswith("VIOLATION") for l in lines), "lines": lines[:6]}
        sh("git reset -q --hard HEAD && git clean -fdq", cwd=wt)
        rc_clean, out_clean = sh("/venv/bin/python -W ignore %s" % os.path.abspath(demo), cwd=wt, env=env, timeout=1800)
        if rc_clean != 0:      # once more (a heavily loaded machine can time a demo out)
            rc_clean, out_clean = sh("/venv/bin/python -W ignore %s" % os.path.abspath(demo), cwd=wt, env=env, timeout=1800)
        res["demo_exit_clean"] = rc_clean
        if rc_clean != 0:
            res["demo_tail_clean"] = out_clean[-400:]
        res["confirmed"] = bool(rc_changed != 0 and rc_clean == 0 and ok)
        return res
    finally:
        sh("git -C /repo worktree remove --force %s" % wt)
        shutil.rmtree(wt, ignore_errors=True)
        shutil.rmtree(os.path.join("/tmp/verif_scratch", wt.strip("/").replace("/", "_")), ignore_errors=True)   # evidence / replays of the scratch run
        d = os.path.join(VERIF, "seeded", sid)
        os.makedirs(d, exist_ok=True)
        shutil.copy(patch, os.path.join(d, "patch.diff"))
        shutil.copy(demo, os.path.join(d, "demo.py"))
        m = json.load(open(meta)) if os.path.exists(meta) else {}
        m["verification"] = res
        m["what_was_run"] = ("scratch worktree of /repo HEAD; git apply patch.diff; demo.py (must fail), pinned suite (stable_pass must still pass), "
                             "VERIF_REPO=<worktree> ./check <ids> --tier %s; git checkout; demo.py (must pass); worktree removed" % tier)
        json.dump(m, open(os.path.join(d, "meta.json"), "w"), indent=1)
        print(json.dumps({k: v for k, v in res.items() if k not in ("demo_tail_changed",)}, indent=1))


if __name__ == "__main__":
    main()
