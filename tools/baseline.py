#!/usr/bin/env python3
"""Run the repository's pinned test suite (guard off) and compare with BASELINE.json stable_pass."""
import json, os, subprocess, sys, tempfile, xml.etree.ElementTree as ET
base = json.load(open("/root/.vp/BASELINE.json"))
env = dict(os.environ); env.pop("MOKAPOT_VERIF", None)
with tempfile.TemporaryDirectory() as d:
    x = os.path.join(d, "j.xml")
    cmd = base["cmd"].replace("<file>", x)
    p = subprocess.run(cmd, shell=True, env=env, stdout=subprocess.PIPE, stderr=subprocess.STDOUT, text=True)
    passed = set()
    for tc in ET.parse(x).getroot().iter("testcase"):
        if not any(c.tag in ("failure", "error", "skipped") for c in tc):
            passed.add(tc.get("classname") + "::" + tc.get("name"))
missing = sorted(set(base["stable_pass"]) - passed)
print(f"passed={len(passed)} stable={len(base['stable_pass'])} missing={len(missing)} extra={len(passed - set(base['stable_pass']))}")
for m in missing: print("MISSING", m)
sys.exit(1 if missing else 0)
