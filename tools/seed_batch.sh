#!/bin/sh
# usage: seed_batch.sh "<id>:<checks>" ...   e.g. C14b:C14 C05a:C05,C13   (3 in parallel)
cd /verif
for spec in "$@"; do
  id=${spec%%:*}; checks=${spec#*:}; p=${id%?}; v=$(echo $id | sed 's/.*\(.\)$/\1/')
  echo "$id $checks /tmp/seed/out/$p/patch_$v.diff /tmp/seed/out/$p/demo_$v.py /tmp/seed/out/$p/meta_$v.json"
done | xargs -P 3 -L 1 sh -c 'python3 tools/seed_test.py $0 $2 $3 $4 $1 > /tmp/seedtest_$0.log 2>&1; echo "done $0"'
