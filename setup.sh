#!/bin/sh
# Offline setup: nothing is downloaded or compiled; verify the tool chain and parse every spec module.
set -e
cd "$(dirname "$0")"
command -v java >/dev/null
test -f /opt/veriftools/tla/tla2tools.jar
PYTHONPATH=/verif:/repo /venv/bin/python -W ignore -c "import mokapot, os; assert os.path.abspath(mokapot.__file__).startswith('/repo/'), mokapot.__file__"
PYTHONPATH=/verif /venv/bin/python -m compileall -q engine drivers tools >/dev/null
fail=0
for f in spec/*.tla; do
  m=$(basename "$f" .tla)
  if ! (cd spec && java -cp /opt/veriftools/tla/tla2tools.jar:/opt/veriftools/tla/CommunityModules-deps.jar tla2sany.SANY "$m.tla" > /tmp/sany_$$.log 2>&1) || grep -q -E "Semantic errors|Parse Error|Fatal errors|Could not" /tmp/sany_$$.log; then
    echo "SANY failed for $m"; cat /tmp/sany_$$.log; fail=1
  fi
done
rm -f /tmp/sany_$$.log
mkdir -p evidence replays
# warm the numba cache used by the checks
PYTHONPATH=/verif:/repo NUMBA_CACHE_DIR=/verif/.numba_cache /venv/bin/python -W ignore -c "
import numpy as np, mokapot.qvalues as q
q.tdc(np.array([1.0,2.0]), np.array([True,False]))" >/dev/null 2>&1 || true
[ $fail = 0 ] && echo "setup ok"
exit $fail
